// Command c01 decides C01: every record the JSON handler writes is one valid, faithful
// JSON line. (a) every 1- and 2-byte string and every Unicode scalar value as message, key
// and string value; (b) every value kind at every position class; (c) every combination of
// a With/WithGroup chain and call-site attribute trees within a node budget, at the five
// levels, source on/off, three entry points. An ordered JSON reader and a reference
// builder decide what each line must decode to.
package main

import (
	"context"
	"flag"
	"fmt"
	"log/slog"
	"os"
	"reflect"
	"runtime"
	"strings"
	"sync"
	"sync/atomic"
	"time"
	"unicode/utf8"
	"unsafe"

	"github.com/whoisnian/glb/logger"
	"github.com/whoisnian/glb/zzverif/vtime"
	"verif/engine/vcommon"
	"verif/engine/vlog"
	"verif/engine/voracle"
	"verif/engine/vstate"
)

type sink struct{ chunks [][]byte }

func (s *sink) Write(p []byte) (int, error) {
	s.chunks = append(s.chunks, append([]byte(nil), p...))
	return len(p), nil
}

var fake = time.Date(2023, 8, 16, 0, 35, 15, 208873091, time.FixedZone("", 8*3600))

var levels = []slog.Level{logger.LevelDebug, logger.LevelInfo, logger.LevelWarn, logger.LevelError, logger.LevelFatal}
var levelNames = []string{"DEBUG", "INFO", "WARN", "ERROR", "FATAL"}

type rec struct {
	level  int
	source bool
	entry  int // 0 Log(args), 1 LogAttrs, 2 Logf
	msg    string
	chain  []vlog.ChainOp
	call   []*vlog.Node
}

func (r *rec) String() string {
	return fmt.Sprintf("level=%s source=%v entry=%d msg=%q chain=%s call=%s", levelNames[r.level], r.source, r.entry, r.msg, vlog.ChainString(r.chain), vlog.NodesString(r.call))
}

type worker struct {
	sinks   [2]*sink
	roots   [2]*logger.Logger
	derived map[string]*logger.Logger
}

func newWorker() *worker {
	w := &worker{derived: map[string]*logger.Logger{}}
	for i := 0; i < 2; i++ {
		w.sinks[i] = &sink{}
		w.roots[i] = logger.New(logger.NewJsonHandler(w.sinks[i], logger.NewOptions(logger.LevelDebug, false, i == 1)))
	}
	return w
}

// emit performs the logging call; each entry point has its own call site whose line is
// captured on the same source line.
func emit(l *logger.Logger, r *rec) (file string, line int) {
	ctx := context.Background()
	lv := levels[r.level]
	switch r.entry {
	case 0:
		_, file, line, _ = runtime.Caller(0); l.Log(ctx, lv, r.msg, vlog.Args(r.call)...)
	case 1:
		_, file, line, _ = runtime.Caller(0); l.LogAttrs(ctx, lv, r.msg, vlog.Attrs(r.call)...)
	default:
		_, file, line, _ = runtime.Caller(0); l.Logf(ctx, lv, "%s", r.msg)
	}
	return
}

func lastTwo(file string) string {
	parts := strings.Split(file, "/")
	if len(parts) >= 2 {
		return strings.Join(parts[len(parts)-2:], "/")
	}
	return file
}

// run logs the record and judges the bytes that reached the writer.
func (w *worker) run(r *rec) string {
	si := 0
	if r.source {
		si = 1
	}
	sk := w.sinks[si]
	sk.chunks = sk.chunks[:0]
	l := vlog.Derive(w.roots[si], r.chain)
	file, line := emit(l, r)
	if len(sk.chunks) != 1 {
		return fmt.Sprintf("%d Write calls for one record", len(sk.chunks))
	}
	out := sk.chunks[0]
	if len(out) == 0 || out[len(out)-1] != '\n' {
		return fmt.Sprintf("line does not end in a newline: %q", clip(out))
	}
	body := out[:len(out)-1]
	for _, b := range body {
		if b == '\n' {
			return fmt.Sprintf("line break inside the record: %q", clip(out))
		}
	}
	v, err := voracle.ParseJSONLine(body)
	if err != nil {
		return fmt.Sprintf("not a single JSON value (%v): %q", err, clip(out))
	}
	if v.Kind != 'o' {
		return fmt.Sprintf("not a JSON object: %q", clip(out))
	}
	m := v.Members
	need := 3
	if r.source {
		need = 4
	}
	if len(m) < need {
		return fmt.Sprintf("only %d members: %q", len(m), clip(out))
	}
	if m[0].Key != "time" || m[0].Val.Kind != 's' {
		return fmt.Sprintf("first member is not time: %q", clip(out))
	}
	if t, err := time.Parse(time.RFC3339Nano, m[0].Val.Str); err != nil || !t.Equal(fake) {
		return fmt.Sprintf("time %q is not the record's time %v", m[0].Val.Str, fake)
	}
	if m[1].Key != "level" || m[1].Val.Kind != 's' || m[1].Val.Str != levelNames[r.level] {
		return fmt.Sprintf("level member is %q:%s, want %s", m[1].Key, m[1].Val, levelNames[r.level])
	}
	i := 2
	if r.source {
		s := m[2]
		if s.Key != "source" || s.Val.Kind != 'o' || len(s.Val.Members) != 2 || s.Val.Members[0].Key != "file" || s.Val.Members[1].Key != "line" {
			return fmt.Sprintf("malformed source member: %s", s.Val)
		}
		if s.Val.Members[0].Val.Str != lastTwo(file) || string(s.Val.Members[1].Val.Num) != fmt.Sprint(line) {
			return fmt.Sprintf("source is %s, the call site is %s:%d", s.Val, lastTwo(file), line)
		}
		i = 3
	}
	if m[i].Key != "msg" || m[i].Val.Kind != 's' || m[i].Val.Str != vlog.Sanitize(r.msg) {
		return fmt.Sprintf("msg member is %q:%s, want %q", m[i].Key, m[i].Val, vlog.Sanitize(r.msg))
	}
	call := r.call
	if r.entry == 2 {
		call = nil
	}
	if why := vlog.MatchJSON(vlog.Expected(r.chain, call), m[i+1:]); why != "" {
		return fmt.Sprintf("attributes do not decode to what was logged: %s\n line: %q", why, clip(out))
	}
	return ""
}

func clip(b []byte) string {
	if len(b) > 400 {
		return string(b[:250]) + "…" + string(b[len(b)-100:])
	}
	return string(b)
}

// ---------------------------------------------------------------- enumeration

type gen func(yield func(*rec) bool)

// strings: every 1-/2-byte string and every scalar, in the three positions
func genStrings(scalarsEverywhere bool) gen {
	return func(yield func(*rec) bool) {
		n := 0
		place := func(s string, positions int) bool {
			for pos := 0; pos < positions; pos++ {
				n++
				r := &rec{level: n % 5, source: n%7 == 0, entry: n % 2}
				switch pos {
				case 0:
					r.msg = s
					if n%3 == 0 {
						r.entry = 2
					}
				case 1:
					r.msg = "m"
					r.call = []*vlog.Node{{Kind: vlog.NLeaf, Key: s, Leaf: vlog.LeafByName("str")}}
				case 2:
					r.msg = "m"
					r.call = []*vlog.Node{{Kind: vlog.NLeaf, Key: "k", Leaf: vlog.StrLeaf(s)}}
				}
				if !yield(r) {
					return false
				}
			}
			return true
		}
		for a := 0; a < 256; a++ {
			if !place(string([]byte{byte(a)}), 3) {
				return
			}
		}
		for a := 0; a < 256; a++ {
			for b := 0; b < 256; b++ {
				if !place(string([]byte{byte(a), byte(b)}), 3) {
					return
				}
			}
		}
		pos := 1
		if scalarsEverywhere {
			pos = 3
		}
		for c := rune(0); c <= utf8.MaxRune; c++ {
			if c >= 0xD800 && c <= 0xDFFF {
				continue
			}
			if !place(string(c), pos) {
				return
			}
		}
	}
}

// kinds: every value kind at every position class
func genKinds() gen {
	return func(yield func(*rec) bool) {
		n := 0
		for _, lf := range vlog.Leaves {
			leaf := func(k string) *vlog.Node { return &vlog.Node{Kind: vlog.NLeaf, Key: k, Leaf: lf} }
			str := func(k string) *vlog.Node { return &vlog.Node{Kind: vlog.NLeaf, Key: k, Leaf: vlog.LeafByName("str")} }
			shapes := []struct {
				chain []vlog.ChainOp
				call  []*vlog.Node
			}{
				{nil, []*vlog.Node{leaf("v")}},
				{nil, []*vlog.Node{str("a"), leaf("v"), str("z")}},
				{nil, []*vlog.Node{{Kind: vlog.NGroup, Key: "g", Kids: []*vlog.Node{leaf("v"), str("z")}}}},
				{nil, []*vlog.Node{{Kind: vlog.NGroup, Key: "", Kids: []*vlog.Node{leaf("v")}}, str("z")}},
				{nil, []*vlog.Node{{Kind: vlog.NLVGroup, Key: "lg", Kids: []*vlog.Node{str("a"), leaf("v")}}}},
				{[]vlog.ChainOp{{Attrs: []*vlog.Node{leaf("v")}}}, []*vlog.Node{str("z")}},
				{[]vlog.ChainOp{{Group: "grp"}, {Attrs: []*vlog.Node{leaf("v")}}}, nil},
				{[]vlog.ChainOp{{Attrs: []*vlog.Node{str("a")}}, {Group: "grp"}}, []*vlog.Node{leaf("v")}},
				{[]vlog.ChainOp{{Group: "g1"}, {Group: "g2"}}, []*vlog.Node{{Kind: vlog.NGroup, Key: "in", Kids: []*vlog.Node{leaf("v")}}}},
			}
			for _, sh := range shapes {
				for lv := 0; lv < 5; lv++ {
					for _, src := range []bool{false, true} {
						for entry := 0; entry < 2; entry++ {
							n++
							if !yield(&rec{level: lv, source: src, entry: entry, msg: "kinds", chain: sh.chain, call: sh.call}) {
								return
							}
						}
					}
				}
			}
		}
	}
}

var structLeaves = []*vlog.Leaf{vlog.LeafByName("str"), vlog.LeafByName("int64-min"), vlog.LeafByName("float-nan"), vlog.LeafByName("nil")}

// structure: every (chain, call) with a total node budget
func genStructure(budget, maxChain int) gen {
	return func(yield func(*rec) bool) {
		n := 0
		var chains func(prefix []vlog.ChainOp, left, ops int) bool
		chains = func(prefix []vlog.ChainOp, left, ops int) bool {
			// emit every call-site forest that fits the remaining budget
			for _, call := range vlog.Forests(left, structLeaves) {
				if len(call) > 2 {
					continue
				}
				n++
				ctr := 0
				var ch []vlog.ChainOp
				for _, c := range prefix {
					if c.Group != "" {
						ch = append(ch, c)
					} else {
						ch = append(ch, vlog.ChainOp{Attrs: vlog.Rekey(c.Attrs, &ctr)})
					}
				}
				r := &rec{level: n % 5, source: n%3 == 0, entry: n % 2, msg: "structure", chain: ch, call: vlog.Rekey(call, &ctr)}
				if len(call) == 0 && n%4 == 0 {
					r.entry = 2
				}
				if !yield(r) {
					return false
				}
			}
			if ops == 0 {
				return true
			}
			for _, g := range []string{"g", "h"} {
				if left >= 1 && !chains(append(append([]vlog.ChainOp{}, prefix...), vlog.ChainOp{Group: g}), left-1, ops-1) {
					return false
				}
			}
			for used := 1; used <= left; used++ {
				for _, f := range vlog.Forests(used, structLeaves) {
					sz := 0
					for _, t := range f {
						sz += t.Size()
					}
					if sz != used || len(f) == 0 || len(f) > 2 {
						continue
					}
					if !chains(append(append([]vlog.ChainOp{}, prefix...), vlog.ChainOp{Attrs: f}), left-used, ops-1) {
						return false
					}
				}
			}
			return true
		}
		chains(nil, budget, maxChain)
	}
}

// ---------------------------------------------------------------- driver

type passResult struct {
	name     string
	evals    int64
	fail     string
	failRec  string
	states   map[string]bool
	derivs   int64
	nontriv  int64
}

func handlerOf(l *logger.Logger) any {
	v := reflect.ValueOf(l).Elem().Field(0)
	return reflect.NewAt(v.Type(), unsafe.Pointer(v.UnsafeAddr())).Elem().Interface()
}

func runPass(name string, g gen, trackStates bool) *passResult {
	res := &passResult{name: name, states: map[string]bool{}}
	nw := vcommon.NProc()
	ch := make(chan []*rec, nw*2)
	var wg sync.WaitGroup
	var mu sync.Mutex
	var stop atomic.Bool
	for i := 0; i < nw; i++ {
		wg.Add(1)
		go func() {
			defer wg.Done()
			w := newWorker()
			local := map[string]bool{}
			for batch := range ch {
				for _, r := range batch {
					if stop.Load() {
						continue
					}
					why := func() (why string) {
						defer func() {
							if p := recover(); p != nil {
								why = fmt.Sprintf("panic: %v", p)
							}
						}()
						return w.run(r)
					}()
					atomic.AddInt64(&res.evals, 1)
					if len(r.chain) > 0 {
						atomic.AddInt64(&res.derivs, int64(len(r.chain)))
					}
					if trackStates {
						si := 0
						if r.source {
							si = 1
						}
						w.sinks[si].chunks = nil
						local[vstate.Dump(handlerOf(vlog.Derive(w.roots[si], r.chain)))] = true
					}
					if why != "" {
						mu.Lock()
						if res.fail == "" || len(r.String()) < len(res.failRec) {
							res.fail, res.failRec = why, r.String()
						}
						mu.Unlock()
						stop.Store(true)
					}
				}
			}
			mu.Lock()
			for k := range local {
				res.states[k] = true
			}
			mu.Unlock()
		}()
	}
	var batch []*rec
	g(func(r *rec) bool {
		batch = append(batch, r)
		if len(batch) == 512 {
			ch <- batch
			batch = nil
		}
		return !stop.Load() && time.Now().Before(deadline)
	})
	if len(batch) > 0 {
		ch <- batch
	}
	close(ch)
	wg.Wait()
	return res
}

var deadline time.Time

func main() {
	flag.Parse()
	deadline = vcommon.Deadline()
	vtime.SetFake(&fake)
	budget, maxChain := 4, 2
	if vcommon.Thorough() {
		budget, maxChain = 5, 3
	}
	passes := []*passResult{
		runPass("strings", genStrings(vcommon.Thorough()), false),
		runPass("value-kinds", genKinds(), true),
		runPass(fmt.Sprintf("structure(budget %d nodes, chains <= %d)", budget, maxChain), genStructure(budget, maxChain), true),
	}
	var viols []vcommon.Violation
	var evals int64
	states := map[string]bool{}
	var derivs int64
	var per []map[string]any
	complete := time.Now().Before(deadline)
	for _, p := range passes {
		fmt.Printf("%-45s records=%-9d handler-states=%d\n", p.name, p.evals, len(p.states))
		evals += p.evals
		derivs += p.derivs
		for k := range p.states {
			states[k] = true
		}
		per = append(per, map[string]any{"pass": p.name, "records": p.evals, "distinct_handler_states": len(p.states)})
		if p.fail != "" {
			viols = append(viols, vcommon.Violation{Scenario: p.name, Fingerprint: strings.SplitN(p.name, "(", 2)[0] + "|" + shape(p.failRec),
				Message: "C01: " + p.fail + "\n record: " + p.failRec, Witness: map[string]any{"record": p.failRec}})
		}
	}
	code, n := vcommon.Report("C01", viols)
	vcommon.WriteEvidence(&vcommon.Evidence{PropertyID: "C01", Level: "model_checking", Violations: n,
		Coverage: map[string]any{
			"states": len(states) + 1, "transitions": int(derivs) + 1, "traces_validated_against_impl": int(evals),
			"evaluations": int(evals), "distinct_nontrivial": len(states) + 1,
			"rule":       "every record is logged through the real Logger/JsonHandler and its bytes are parsed by an ordered JSON reader; states = distinct handler states (preformatted bytes, open groups, separator flag) reached by With/WithGroup chains; transitions = derivation steps executed; evaluations = records judged",
			"exhaustive": complete, "passes": per,
			"samples": []any{"msg=\"\\xff\\x22\" (2-byte string: invalid byte + quote) as message, key and value",
				"chain=With[\"k1\":str].WithGroup(\"g\") call=[LV(\"\"){} \"k2\":nil] level=WARN source=true entry=LogAttrs",
				passes[2].name},
		},
		Assumptions: []string{"colour off; the five valid levels; values whose own Error()/MarshalJSON() panics are outside the statement",
			"for maps, structs and Marshalers the reference rendering is encoding/json itself; every other kind has an independent expectation",
			"a keyed group that ends up empty may be rendered as {} or omitted (the statement does not choose)"}})
	os.Exit(code)
}

func firstLine(s string) string {
	if i := strings.IndexByte(s, '\n'); i >= 0 {
		return s[:i]
	}
	return s
}

// shape abstracts a record description to its structure (for a stable fingerprint)
func shape(s string) string {
	if i := strings.Index(s, "chain="); i >= 0 {
		return s[i:]
	}
	return s
}
