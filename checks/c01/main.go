// Command c01 decides C01: every record the JSON handler writes is one valid, faithful
// JSON line. (a) every 1- and 2-byte string and every Unicode scalar value as message, key
// and string value; (b) every value kind at every position class; (c) every combination of
// a With/WithGroup chain and call-site attribute trees within a node budget, at the five
// levels, source on/off, three entry points. An ordered JSON reader and a reference
// builder decide what each line must decode to.
package main

import (
	"bytes"
	"flag"
	"fmt"
	"time"

	"verif/engine/vlog"
	"verif/engine/vlogrun"
	"verif/engine/voracle"
)

func judge(r *vlogrun.Rec, file string, line int, chunks [][]byte) string {
	// how many Write calls carry the line is C02's subject: the record is what they carry together
	out := bytes.Join(chunks, nil)
	if len(out) == 0 || out[len(out)-1] != '\n' {
		return fmt.Sprintf("line does not end in a newline: %q", vlogrun.Clip(out))
	}
	body := out[:len(out)-1]
	for _, b := range body {
		if b == '\n' {
			return fmt.Sprintf("line break inside the record: %q", vlogrun.Clip(out))
		}
	}
	v, err := voracle.ParseJSONLine(body)
	if err != nil {
		return fmt.Sprintf("not a single JSON value (%v): %q", err, vlogrun.Clip(out))
	}
	if v.Kind != 'o' {
		return fmt.Sprintf("not a JSON object: %q", vlogrun.Clip(out))
	}
	m := v.Members
	need := 3
	if r.Source {
		need = 4
	}
	if len(m) < need {
		return fmt.Sprintf("only %d members: %q", len(m), vlogrun.Clip(out))
	}
	if m[0].Key != "time" || m[0].Val.Kind != 's' {
		return fmt.Sprintf("first member is not time: %q", vlogrun.Clip(out))
	}
	if t, err := time.Parse(time.RFC3339Nano, m[0].Val.Str); err != nil || !t.Equal(vlogrun.Fake) {
		return fmt.Sprintf("time %q is not the record's time %v", m[0].Val.Str, vlogrun.Fake)
	}
	if m[1].Key != "level" || m[1].Val.Kind != 's' || m[1].Val.Str != vlogrun.LevelNames[r.Level] {
		return fmt.Sprintf("level member is %q:%s, want %s", m[1].Key, m[1].Val, vlogrun.LevelNames[r.Level])
	}
	i := 2
	if r.Source {
		s := m[2]
		if s.Key != "source" || s.Val.Kind != 'o' || len(s.Val.Members) != 2 || s.Val.Members[0].Key != "file" || s.Val.Members[1].Key != "line" {
			return fmt.Sprintf("malformed source member: %s", s.Val)
		}
		if s.Val.Members[0].Val.Kind != 's' || !vlogrun.IsFileOf(s.Val.Members[0].Val.Str, file) || string(s.Val.Members[1].Val.Num) != fmt.Sprint(line) {
			return fmt.Sprintf("source is %s, the call site is %s:%d", s.Val, vlogrun.LastTwo(file), line)
		}
		i = 3
	}
	if m[i].Key != "msg" || m[i].Val.Kind != 's' || m[i].Val.Str != vlog.Sanitize(r.Msg) {
		return fmt.Sprintf("msg member is %q:%s, want %q", m[i].Key, m[i].Val, vlog.Sanitize(r.Msg))
	}
	call := r.Call
	if r.Entry == 2 {
		call = nil
	}
	if why := vlog.MatchJSON(vlog.Expected(r.Chain, call), m[i+1:]); why != "" {
		return fmt.Sprintf("attributes do not decode to what was logged: %s\n line: %q", why, vlogrun.Clip(out))
	}
	return ""
}

func main() {
	flag.Parse() // before anything asks for the tier
	vlogrun.Main("C01", 2, judge, vlogrun.StandardPasses(),
		"every record is logged through the real Logger/JsonHandler and its bytes are parsed by an ordered JSON reader; states = distinct handler states (preformatted bytes, open groups, separator flag) reached by With/WithGroup chains; transitions = derivation steps executed; evaluations = records judged",
		[]any{"msg=\"\\xff\\x22\" (2-byte string: invalid byte + quote) as message, key and value",
			"chain=With[\"k1\":str].WithGroup(\"g\") call=[LV(\"\"){} \"k2\":nil] level=WARN source=true entry=LogAttrs"},
		[]string{"colour off; the five valid levels; values whose own Error()/MarshalJSON() panics are outside the statement",
			"for maps, structs and Marshalers the reference rendering is encoding/json itself; every other kind has an independent expectation",
			"a keyed group that ends up empty may be rendered as {} or omitted (the statement does not choose)"})
}
