// Command c02 decides C02: one record = one Write = one whole line, never interleaved.
// The instrumented logger package runs under the scheduler; goroutines log through the
// root logger and derived loggers; all interleavings at pool get/put, outMu and inside
// the destination's Write are executed.
package main

import (
	"bytes"
	"fmt"
	"io"
	"io/fs"
	"log/slog"
	"sort"
	"strings"
	"syscall"
	"time"

	"github.com/whoisnian/glb/logger"
	"verif/engine/sdrive"
	"verif/engine/shim/vsched"
	"verif/engine/shim/vtime"
)

type sink struct {
	refusals int
	mode     int // what a refusal looks like: 0 EAGAIN after half the line, 1 io.ErrShortWrite after half the line, 2 half the line and no error
	busy     bool
	chunks   []string
	sched    bool
}

// the refusal looks like what a non-blocking pipe or an interrupted system call gives: an error a
// caller might be tempted to retry (one Write per record holds whatever the Write returns)
var errSink error = &fs.PathError{Op: "write", Path: "destination", Err: syscall.EAGAIN}

func (s *sink) Write(p []byte) (int, error) {
	if bytes.Contains(p, []byte("REFUSED")) {
		// the destination fails for this one record (and does not keep it); later records must be unaffected
		if s.sched {
			vsched.Event("write-refused")
		}
		s.refusals++
		switch s.mode {
		case 1:
			return len(p) / 2, io.ErrShortWrite
		case 2:
			return len(p) / 2, nil
		}
		return len(p) / 2, errSink
	}
	if s.sched {
		vsched.Event("write-begin")
		if s.busy {
			vsched.Fail("C02: a Write call on the destination began while another Write was in progress")
		}
		s.busy = true
		cp := string(p) // the handler may reuse the buffer afterwards
		vsched.Yield("inside-write")
		if cp != string(p) {
			vsched.Fail("C02: the buffer passed to Write changed while Write was in progress")
		}
		vsched.Event("write-end")
		s.busy = false
		s.chunks = append(s.chunks, cp)
		return len(p), nil
	}
	s.chunks = append(s.chunks, string(p))
	return len(p), nil
}

func newRoot(kind int, w *sink) *logger.Logger {
	opts := logger.NewOptions(logger.LevelInfo, false, kind == 2)
	switch kind {
	case 0:
		return logger.New(logger.NewNanoHandler(w, opts))
	case 1:
		return logger.New(logger.NewTextHandler(w, opts))
	}
	return logger.New(logger.NewJsonHandler(w, opts))
}

var handlerNames = []string{"nano", "text", "json"}

func big(tag string) string { return "big-" + tag + "-" + strings.Repeat("x", 20<<10) }

const nOpKinds = 6 // kinds offered to the free choice; kind 6 (a record the destination refuses) is used in fixed plans only

var opNames = []string{"root.Info", "child.Warn", "derive+Error", "below-threshold", "20KiB", "root.Infof", "refused-by-destination", "wide.WithGroup+Error", "wide.With+Warn", "wide.Info", "grouped.Info(group attr with a slow LogValuer)", "grouped.Warn(group attr, slow LogValuer first)"}

// slowLV is a LogValuer whose resolution is a scheduling point: another goroutine may log through
// the same handler while this record is half rendered (a key path or scratch buffer kept in the
// handler instead of the call would then be shared between the two records)
type slowLV struct{ v string }

func (l slowLV) LogValue() slog.Value {
	vsched.Event("resolving-a-LogValuer")
	return slog.StringValue(l.v)
}

// doOp is the single call site of every logging operation (so that source positions agree
// between the concurrent run and the run-alone reference).
func doOp(root, child, wide *logger.Logger, kind int, tag string) {
	// every operation has its own instant (a different second, some a different day): the time
	// is part of the line, and what a line says must not depend on who else is logging
	vtime.SetThreadNow(opTime(tag))
	switch kind {
	case 7: // derive from a shared non-root parent whose rendered attributes leave spare capacity, then log
		wide.WithGroup("s"+tag).Error("w-"+tag, "x", 1)
	case 8:
		wide.With("q", tag).Warn("v-" + tag)
	case 9:
		wide.Info("u-"+tag, "y", 2)
	case 10: // through the shared, pre-derived logger that sits inside a group
		child.Info("y-"+tag, slog.Group("req", "val", slowLV{"slow"}, "n", 1), "after", tag)
	case 11:
		child.Warn("z-"+tag, "first", slowLV{"s2"}, slog.Group("x y", "k", 2), "tail", tag)
	case 0:
		root.Info("m-"+tag, "k", tag, slog.Int("n", 1))
	case 1:
		child.Warn("c-"+tag, "n", 7)
	case 2:
		root.With("w", tag).WithGroup("h").Error("d-"+tag, "x", true)
	case 3:
		root.Debug("below-" + tag)
	case 4:
		root.Info(big(tag))
	case 5:
		root.Infof("f-%s", tag)
	case 6:
		root.Info("REFUSED-"+tag, "k", tag)
	}
}

// slowPlan: the Text handler takes a scratch buffer from a pool for every attribute (each Get is a
// choice point), so its unbounded search does not finish in the quick tier; it is bounded instead
func slowPlan(hn string) sdrive.Plan {
	if hn == "text" {
		return sdrive.Plan{Bounds: []int{0, 1, 2}}
	}
	return sdrive.Plan{Bounds: []int{0, 1, -1}}
}

func derive(root *logger.Logger) *logger.Logger { return root.With("pre", 1).WithGroup("g") }

var baseTime = time.Date(2023, 8, 16, 0, 35, 15, 208873091, time.FixedZone("", 8*3600))

// opTime derives the instant of an operation from its tag ("t<thread>o<index>").
func opTime(tag string) time.Time {
	var ti, oi int
	fmt.Sscanf(tag, "t%do%d", &ti, &oi)
	return baseTime.Add(time.Duration(ti)*25*time.Hour + time.Duration(oi)*61*time.Second)
}

// deriveWide: several attributes appended one by one, so that the parent's rendered bytes sit
// in a backing array with room to spare (what two derivations from it could both write into)
func deriveWide(root *logger.Logger) *logger.Logger {
	args := []any{"p1", 1, "p2", 2, "p3", 3, "p4", 4, "p5", 5, "p6", 6}
	return root.With(args[:2*wideAttrs]...)
}

// wideAttrs is how many attributes the shared parent carries in this execution (a free choice
// in the shared-parent scenarios: how much room is left over depends on the rendered length)
var wideAttrs = 3

// alone returns the chunks the operation writes when performed alone on a fresh handler.
func alone(handler, kind int, tag string) []string {
	w := &sink{}
	vsched.Free(func() {
		root := newRoot(handler, w)
		doOp(root, derive(root), deriveWide(root), kind, tag)
	})
	return w.chunks
}

type scen struct {
	handler int
	threads [][]int // op kinds per thread; -1 = free choice
}

func body(sc scen) func(c *vsched.Ctx) {
	return func(c *vsched.Ctx) {
		w := &sink{sched: true}
		root := newRoot(sc.handler, w)
		child := derive(root)
		wideAttrs = 3
		for _, ops := range sc.threads {
			if ops[0] == -2 {
				wideAttrs = 2 + vsched.Choose(5, "attributes-of-the-shared-parent")
			}
		}
		wide := deriveWide(root)
		for _, ops := range sc.threads {
			for _, k := range ops {
				if k == 6 {
					// a short write is not an invitation to write the rest: one Write per record whatever it returns
					w.mode = vsched.Choose(3, "kind-of-refusal")
				}
			}
		}
		type done struct{ thread, idx, kind int }
		plan := make([][]int, len(sc.threads))
		var desc []string
		for ti, ops := range sc.threads {
			for _, k := range ops {
				if k == -2 {
					k = 7 + vsched.Choose(3, "op-kind-on-shared-parent")
				}
				if k < 0 {
					k = vsched.Choose(nOpKinds, "op-kind")
				}
				plan[ti] = append(plan[ti], k)
			}
			var d []string
			for _, k := range plan[ti] {
				d = append(d, opNames[k])
			}
			desc = append(desc, "["+strings.Join(d, ",")+"]")
		}
		for ti := range plan {
			ti := ti
			vsched.GoNamed(fmt.Sprintf("logger%d", ti), func() {
				for oi, k := range plan[ti] {
					doOp(root, child, wide, k, fmt.Sprintf("t%do%d", ti, oi))
				}
			})
		}
		c.OnEnd(func() string {
			for _, t := range vsched.Threads() {
				if !t.Done() {
					return fmt.Sprintf("C02: thread %s did not finish (%s)", t.Name, t.PendingOp())
				}
			}
			nRefused := 0
			for _, ops := range plan {
				for _, k := range ops {
					if k == 6 {
						nRefused++
					}
				}
			}
			if w.refusals != nRefused {
				return fmt.Sprintf("C02: %d Write calls for the %d record(s) the destination refuses (%s, threads %v)", w.refusals, nRefused, handlerNames[sc.handler], desc)
			}
			var want []string
			perThread := make([][]string, len(plan))
			for ti, ops := range plan {
				for oi, k := range ops {
					ch := alone(sc.handler, k, fmt.Sprintf("t%do%d", ti, oi))
					if k == 3 && len(ch) != 0 {
						return "C02: a record below the threshold caused a Write"
					}
					want = append(want, ch...)
					perThread[ti] = append(perThread[ti], ch...)
				}
			}
			got := append([]string{}, w.chunks...)
			for _, g := range got {
				if !strings.HasSuffix(g, "\n") || strings.Count(g, "\n") != 1 {
					return fmt.Sprintf("C02: a Write did not carry exactly one newline-terminated line: %q", clip(g))
				}
			}
			sg, sw := append([]string{}, got...), append([]string{}, want...)
			sort.Strings(sg)
			sort.Strings(sw)
			if len(sg) != len(sw) {
				return fmt.Sprintf("C02: %d Write calls for %d enabled records (%s, threads %v)", len(sg), len(sw), handlerNames[sc.handler], desc)
			}
			for i := range sg {
				if sg[i] != sw[i] {
					return fmt.Sprintf("C02: a line differs from the same record logged alone (%s, threads %v)\n got: %q\nwant: %q", handlerNames[sc.handler], desc, clip(sg[i]), clip(sw[i]))
				}
			}
			// program order per thread
			for ti, lines := range perThread {
				pos := 0
				for _, g := range got {
					if pos < len(lines) && g == lines[pos] {
						pos++
					}
				}
				if pos != len(lines) {
					return fmt.Sprintf("C02: thread %d's records appear out of program order", ti)
				}
			}
			var order []string
			for _, g := range got {
				i := strings.Index(g, "-t")
				if i >= 0 && i+6 <= len(g) {
					order = append(order, g[i+1:i+5])
				}
			}
			c.Outcome(strings.Join(desc, "") + " order=" + strings.Join(order, ","))
			return ""
		})
	}
}

func clip(s string) string {
	if len(s) > 300 {
		return s[:150] + "…" + s[len(s)-100:]
	}
	return s
}

func main() {
	fake := time.Date(2023, 8, 16, 0, 35, 15, 208873091, time.FixedZone("", 8*3600))
	vtime.SetFake(&fake)
	P := func(b ...int) sdrive.Plan { return sdrive.Plan{Bounds: b} }
	PS := func(n int, b ...int) sdrive.Plan { return sdrive.Plan{Bounds: b, Shards: n} }
	var scens []sdrive.Scenario
	for h := 0; h < 3; h++ {
		hn := handlerNames[h]
		any2x1, q22, q32 := P(0, 1, -1), P(0, 1, -1), PS(8, 0, 1, 2, 3)
		if h == 1 { // the text handler adds prefix-pool operations per attribute: larger space
			any2x1, q22, q32 = PS(8, 0, 1, 2, 3), PS(8, 0, 1, 2, 3, 4), PS(8, 0, 1, 2)
		}
		scens = append(scens,
			sdrive.Scenario{Name: hn + "-2x1-any", Props: []string{"C02"}, About: "two goroutines, one operation each, every pair of operation kinds (free choice), pool choices included",
				Quick: any2x1, Thorough: PS(16, 0, 1, -1), Body: body(scen{h, [][]int{{-1}, {-1}}}), MinOutcomes: 20},
			sdrive.Scenario{Name: hn + "-2x2-mixed", Props: []string{"C02"}, About: "root+derive vs child+20KiB",
				Quick: q22, Thorough: PS(16, 0, 1, -1), Body: body(scen{h, [][]int{{0, 2}, {1, 4}}}), MinOutcomes: 2},
			sdrive.Scenario{Name: hn + "-2x2-big-below", Props: []string{"C02"}, About: "20KiB+below-threshold vs derive+root",
				Quick: q22, Thorough: PS(16, 0, 1, -1), Body: body(scen{h, [][]int{{4, 3}, {2, 0}}}), MinOutcomes: 2},
			sdrive.Scenario{Name: hn + "-after-write-error", Props: []string{"C02"}, About: "the destination refuses one record (Write returns an error); afterwards two goroutines log concurrently: their lines must be unaffected",
				Quick: q22, Thorough: PS(16, 0, 1, -1), Body: body(scen{h, [][]int{{6, 0}, {1}}}), MinOutcomes: 2},
			sdrive.Scenario{Name: hn + "-shared-parent", Props: []string{"C02"}, About: "two goroutines derive from one shared non-root parent (whose rendered attributes leave spare buffer capacity) and log, or log through it: every pair of WithGroup+log / With+log / log (free choice)",
				Quick: any2x1, Thorough: PS(16, 0, 1, -1), Body: body(scen{h, [][]int{{-2}, {-2}}}), MinOutcomes: 9},
			sdrive.Scenario{Name: hn + "-shared-parent-2x2", Props: []string{"C02"}, About: "as above, two operations each: derive+log twice against derive+log and a log through the parent",
				Quick: q22, Thorough: PS(16, 0, 1, -1), Body: body(scen{h, [][]int{{7, 8}, {7, 9}}}), MinOutcomes: 2},
			sdrive.Scenario{Name: hn + "-grouped-slow-valuer", Props: []string{"C02"}, About: "two goroutines log through the same pre-derived logger inside a group; the records carry group attributes and a LogValuer whose resolution is a scheduling point, so each record is rendered while the other is half done",
				Quick: slowPlan(hn), Thorough: PS(16, 0, 1, 2, 3), Body: body(scen{h, [][]int{{10}, {11}}}), MinOutcomes: 2},
			sdrive.Scenario{Name: hn + "-3x2", Props: []string{"C02"}, About: "three goroutines, two operations each",
				Quick: q32, Thorough: PS(16, 0, 1, 2, 3, 4), Body: body(scen{h, [][]int{{0, 1}, {2, 5}, {1, 0}}}), MinOutcomes: 2},
			sdrive.Scenario{Name: hn + "-3x3", Props: []string{"C02"}, About: "three goroutines, three operations each (thorough only beyond bound 1)",
				Quick: P(0, 1, 2), Thorough: PS(16, 0, 1, 2, 3), Body: body(scen{h, [][]int{{0, 2, 4}, {1, 3, 0}, {5, 1, 2}}}), MinOutcomes: 2},
		)
	}
	sdrive.Main("model_checking", scens, []string{
		"the destination is a harness writer whose Write contains a scheduling point; a real file's partial writes are outside the handler's control",
		"record sizes are represented by {short, multi-attribute, 20 KiB (> pooled-buffer limit)}",
		"sync.Pool is modelled as: Get returns any pooled item or misses (default most recent; other choices are deviations)",
		"code between visible operations is atomic; justified by the field-level happens-before race check",
	})
}
