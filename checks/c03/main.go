// Command c03 decides C03: derived loggers are isolated. (H) explicit-state search over
// derivation trees of up to 5 nodes for each of the three handlers: after every derivation
// every existing logger must still write exactly what a logger built alone from a fresh
// root by replaying only its own chain writes, and (JSON/Text) the same structure as a root
// logger given the With attributes at the call site. (S) two goroutines deriving from the
// same non-root parent and logging, all interleavings, plus race detection.
package main

import (
	"fmt"
	"log/slog"
	"os"
	"reflect"
	"runtime/debug"
	"sort"
	"strings"
	"time"
	"unsafe"

	"github.com/whoisnian/glb/logger"
	"verif/engine/sdrive"
	"verif/engine/shim/vsched"
	"verif/engine/shim/vtime"
	"verif/engine/vcommon"
	"verif/engine/vlog"
	"verif/engine/voracle"
	"verif/engine/vstate"
)

type sink struct{ chunks []string }

func (s *sink) Write(p []byte) (int, error) {
	s.chunks = append(s.chunks, string(p))
	return len(p), nil
}

var handlerNames = []string{"nano", "text", "json"}

func newRoot(kind int, w *sink) *logger.Logger {
	opts := logger.NewOptions(logger.LevelDebug, false, false)
	switch kind {
	case 0:
		return logger.New(logger.NewNanoHandler(w, opts))
	case 1:
		return logger.New(logger.NewTextHandler(w, opts))
	}
	return logger.New(logger.NewJsonHandler(w, opts))
}

func leaf(k, name string) *vlog.Node {
	return &vlog.Node{Kind: vlog.NLeaf, Key: k, Leaf: vlog.LeafByName(name)}
}

// derivation alphabet
func deriveOps(tag string) []vlog.ChainOp {
	return []vlog.ChainOp{
		{Attrs: []*vlog.Node{leaf("a"+tag, "str")}},
		{Attrs: []*vlog.Node{leaf("b"+tag, "int64-max"), leaf("c"+tag, "str-nasty"), leaf("d"+tag, "bool")}}, // leaves spare capacity in the rendered buffer
		{Attrs: []*vlog.Node{{Kind: vlog.NGroup, Key: "grp" + tag, Kids: []*vlog.Node{leaf("e", "duration"), leaf("f", "nil")}}}},
		{Group: "g"},
		{Group: "h"},
		{Attrs: []*vlog.Node{{Kind: vlog.NLVGroup, Key: "", Kids: nil}, leaf("z"+tag, "float-1.5")}},
		{Group: "a-group-name-longer-than-any-small-scratch-buffer"}, // 49 bytes
	}
}

const nDerive = 7

var probeCall = []*vlog.Node{leaf("p", "str"), {Kind: vlog.NGroup, Key: "pg", Kids: []*vlog.Node{leaf("q", "int64-min")}}}

type node struct {
	parent int
	chain  []vlog.ChainOp
	l      *logger.Logger
}

type sys struct {
	kind       int
	w          *sink
	nodes      []*node
	nontrivial bool
}

func newSys(kind int) *sys {
	s := &sys{kind: kind, w: &sink{}}
	s.nodes = []*node{{parent: -1, l: newRoot(kind, s.w)}}
	return s
}

var maxNodes = 5

func (s *sys) emit(l *logger.Logger) (string, string) {
	s.w.chunks = s.w.chunks[:0]
	l.Info("probe", vlog.Args(probeCall)...)
	// how many Write calls carry the record is C02's subject
	return strings.Join(s.w.chunks, ""), ""
}

func alone(kind int, chain []vlog.ChainOp) string {
	w := &sink{}
	vsched.Free(func() { vlog.Derive(newRoot(kind, w), chain).Info("probe", vlog.Args(probeCall)...) })
	return strings.Join(w.chunks, "")
}

// callSite renders the record of a root logger given the chain's attributes at the call
// site inside the same group nesting.
func callSite(kind int, chain []vlog.ChainOp) string {
	var build func(ch []vlog.ChainOp) []*vlog.Node
	build = func(ch []vlog.ChainOp) []*vlog.Node {
		var out []*vlog.Node
		for i, c := range ch {
			if c.Group != "" {
				return append(out, &vlog.Node{Kind: vlog.NGroup, Key: c.Group, Kids: build(ch[i+1:])})
			}
			out = append(out, c.Attrs...)
		}
		return append(out, probeCall...)
	}
	w := &sink{}
	newRoot(kind, w).Info("probe", vlog.Args(build(chain))...)
	return strings.Join(w.chunks, "")
}

func sameStructure(kind int, a, b string) string {
	switch kind {
	case 0:
		if a != b {
			return fmt.Sprintf("nano lines differ:\n %q\n %q", a, b)
		}
	case 1:
		ta, e1 := voracle.TokenizeTextLine(strings.TrimSuffix(a, "\n"))
		tb, e2 := voracle.TokenizeTextLine(strings.TrimSuffix(b, "\n"))
		if e1 != nil || e2 != nil || len(ta) != len(tb) {
			return fmt.Sprintf("text lines differ in structure:\n %q\n %q", a, b)
		}
		for i := range ta {
			if ta[i].Key != tb[i].Key || ta[i].Val != tb[i].Val {
				return fmt.Sprintf("text token %d differs: %q=%q vs %q=%q", i, ta[i].Key, ta[i].Val, tb[i].Key, tb[i].Val)
			}
		}
	case 2:
		ja, e1 := voracle.ParseJSONLine([]byte(strings.TrimSuffix(a, "\n")))
		jb, e2 := voracle.ParseJSONLine([]byte(strings.TrimSuffix(b, "\n")))
		if e1 != nil || e2 != nil {
			return fmt.Sprintf("json lines do not parse:\n %q\n %q", a, b)
		}
		if !equalModuloEmptyGroups(ja, jb) {
			return fmt.Sprintf("json lines differ in structure:\n %s\n %s", ja, jb)
		}
	}
	return ""
}

// prune removes keyed groups that end up empty (the statement leaves their rendering open).
func prune(v voracle.JVal) (voracle.JVal, bool) {
	if v.Kind != 'o' {
		return v, false
	}
	var ms []voracle.JMember
	for _, m := range v.Members {
		pv, empty := prune(m.Val)
		if empty {
			continue
		}
		ms = append(ms, voracle.JMember{Key: m.Key, Val: pv})
	}
	v.Members = ms
	return v, len(ms) == 0
}

func equalModuloEmptyGroups(a, b voracle.JVal) bool {
	pa, _ := prune(a)
	pb, _ := prune(b)
	return pa.Equal(pb)
}

func (s *sys) check() string {
	for i, n := range s.nodes {
		got, why := s.emit(n.l)
		if why != "" {
			return "C03: " + why
		}
		want := alone(s.kind, n.chain)
		if got != want {
			return fmt.Sprintf("C03 (%s): logger #%d (chain %s) now writes\n   %q\n but a logger built alone by replaying that chain writes\n   %q", handlerNames[s.kind], i, vlog.ChainString(n.chain), got, want)
		}
		if why := sameStructure(s.kind, got, callSite(s.kind, n.chain)); why != "" {
			return fmt.Sprintf("C03 (%s): logger #%d (chain %s) does not write what a root logger given the same attributes at the call site writes: %s", handlerNames[s.kind], i, vlog.ChainString(n.chain), why)
		}
	}
	return ""
}

func handlerOf(l *logger.Logger) reflect.Value {
	v := reflect.ValueOf(l).Elem().Field(0)
	return reflect.NewAt(v.Type(), unsafe.Pointer(v.UnsafeAddr())).Elem()
}

func preformatted(l *logger.Logger) (ln, cp int, ok bool) {
	defer func() {
		if recover() != nil {
			ok = false // a Logger laid out differently: no bookkeeping, the oracle does not depend on it
		}
	}()
	h := handlerOf(l)
	if h.Kind() != reflect.Interface {
		return 0, 0, false
	}
	h = h.Elem() // interface -> pointer
	if h.Kind() == reflect.Ptr {
		h = h.Elem()
	}
	f := h.FieldByName("preformatted")
	if !f.IsValid() || f.Kind() != reflect.Slice {
		return 0, 0, false
	}
	return f.Len(), f.Cap(), true
}

func apply(s *sys, op int) string {
	parent, k := op/nDerive, op%nDerive
	p := s.nodes[parent]
	id := len(s.nodes)
	c := deriveOps(fmt.Sprint(id))[k]
	n := &node{parent: parent, chain: append(append([]vlog.ChainOp{}, p.chain...), c)}
	n.l = vlog.Derive(p.l, []vlog.ChainOp{c})
	s.nodes = append(s.nodes, n)
	// vacuity bookkeeping: a parent with spare capacity that now has two or more children
	if ln, cp, ok := preformatted(p.l); ok && cp > ln {
		kids := 0
		for _, x := range s.nodes {
			if x.parent == parent {
				kids++
			}
		}
		if kids >= 2 {
			s.nontrivial = true
		}
	}
	return ""
}

func canon(s *sys) string {
	var b strings.Builder
	for _, n := range s.nodes {
		s.w.chunks = nil
		fmt.Fprintf(&b, "%d<%d:%s|", len(n.chain), n.parent, vstate.Dump(handlerOf(n.l).Interface()))
	}
	return b.String()
}

// ---------------------------------------------------------------- S part

func sbody(kind int) func(c *vsched.Ctx) {
	return func(c *vsched.Ctx) {
		w := &ssink{}
		root := newRoot2(kind, w)
		ops := deriveOps("0")
		parentChain := []vlog.ChainOp{ops[1], ops[3]}
		parent := vlog.Derive(root, parentChain)
		type result struct {
			chain []vlog.ChainOp
			line  string
		}
		results := make([][]result, 2)
		for ti := 0; ti < 2; ti++ {
			ti := ti
			vsched.GoNamed(fmt.Sprintf("deriver%d", ti), func() {
				k := vsched.Choose(3, "derive-kind")
				c1 := deriveOps(fmt.Sprintf("t%d", ti))[[]int{0, 1, 4}[k]]
				child := vlog.Derive(parent, []vlog.ChainOp{c1})
				child.Info("probe", vlog.Args(probeCall)...)
				results[ti] = append(results[ti], result{append(append([]vlog.ChainOp{}, parentChain...), c1), ""})
				c2 := deriveOps(fmt.Sprintf("u%d", ti))[2]
				gc := vlog.Derive(child, []vlog.ChainOp{c2})
				parent.Info("probe", vlog.Args(probeCall)...)
				results[ti] = append(results[ti], result{parentChain, ""})
				gc.Info("probe", vlog.Args(probeCall)...)
				results[ti] = append(results[ti], result{append(append(append([]vlog.ChainOp{}, parentChain...), c1), c2), ""})
			})
		}
		c.OnEnd(func() string {
			var lab []string
			for ti, rs := range results {
				if len(rs) != 3 {
					return fmt.Sprintf("C03: deriver%d did not finish", ti)
				}
				lab = append(lab, vlog.ChainString(rs[0].chain[len(rs[0].chain)-1:]))
			}
			// which goroutine performs the Write, and in how many pieces, is not this property's
			// business: the lines written are compared, as a multiset, with the lines every logger
			// writes when built alone
			var want []string
			desc := map[string]string{}
			for _, rs := range results {
				for _, r := range rs {
					// physical lines on both sides (a nano record may contain raw line breaks)
					for _, l := range strings.SplitAfter(alone(kind, r.chain), "\n") {
						if l != "" {
							want = append(want, l)
							desc[l] = vlog.ChainString(r.chain)
						}
					}
				}
			}
			got := w.lines()
			sort.Strings(want)
			sort.Strings(got)
			for i := 0; i < len(want) || i < len(got); i++ {
				switch {
				case i >= len(got):
					return fmt.Sprintf("C03 (%s, concurrent derivation): the line of chain %s is missing:\n   %q", handlerNames[kind], desc[want[i]], want[i])
				case i >= len(want):
					return fmt.Sprintf("C03 (%s, concurrent derivation): a line was written that no logger writes alone:\n   %q", handlerNames[kind], got[i])
				case got[i] != want[i]:
					if _, ok := desc[got[i]]; !ok {
						return fmt.Sprintf("C03 (%s, concurrent derivation): a line was written that no logger writes when built alone:\n   %q\n e.g. chain %s alone writes\n   %q", handlerNames[kind], got[i], desc[want[i]], want[i])
					}
					return fmt.Sprintf("C03 (%s, concurrent derivation): chain %s did not write its line\n   %q", handlerNames[kind], desc[want[i]], want[i])
				}
			}
			c.Outcome(strings.Join(lab, "|"))
			return ""
		})
	}
}

type ssink struct {
	buf strings.Builder
}

func (s *ssink) Write(p []byte) (int, error) {
	s.buf.Write(p)
	return len(p), nil
}

// lines returns what was written, cut at the newlines.
func (s *ssink) lines() []string {
	var out []string
	for _, l := range strings.SplitAfter(s.buf.String(), "\n") {
		if l != "" {
			out = append(out, l)
		}
	}
	return out
}

func newRoot2(kind int, w *ssink) *logger.Logger {
	opts := logger.NewOptions(logger.LevelDebug, false, false)
	switch kind {
	case 0:
		return logger.New(logger.NewNanoHandler(w, opts))
	case 1:
		return logger.New(logger.NewTextHandler(w, opts))
	}
	return logger.New(logger.NewJsonHandler(w, opts))
}

// emptyGroupGivenToWith: attributes given to With appear exactly as if they had been passed at
// the call site - also an empty group (which log/slog's Record drops at the call site): the
// line of With(attrs).Info(msg, call...) is compared with that of Info(msg, attrs..., call...)
// on the same kind of logger, in every context.
func emptyGroupGivenToWith(kind int) (evals int, viols []vcommon.Violation) {
	type ctxT struct {
		name string
		mk   func(*logger.Logger) *logger.Logger
	}
	ctxs := []ctxT{
		{"root", func(l *logger.Logger) *logger.Logger { return l }},
		{"With(a=1)", func(l *logger.Logger) *logger.Logger { return l.With("a", 1) }},
		{"WithGroup(g)", func(l *logger.Logger) *logger.Logger { return l.WithGroup("g") }},
		{"With(a=1).WithGroup(g)", func(l *logger.Logger) *logger.Logger { return l.With("a", 1).WithGroup("g") }},
		{"WithGroup(g).With(a=1)", func(l *logger.Logger) *logger.Logger { return l.WithGroup("g").With("a", 1) }},
	}
	type caseT struct {
		name string
		with func(*logger.Logger) *logger.Logger
		site []any // the same attributes, to be passed at the call site instead
	}
	e, ef := slog.Group("e"), slog.Group("e", slog.Group("f"))
	cases := []caseT{
		{`With(Group("e"))`, func(l *logger.Logger) *logger.Logger { return l.With(e) }, []any{e}},
		{`With(Group("e"), k=1)`, func(l *logger.Logger) *logger.Logger { return l.With(e, "k", 1) }, []any{e, "k", 1}},
		{`With(k=1, Group("e"))`, func(l *logger.Logger) *logger.Logger { return l.With("k", 1, e) }, []any{"k", 1, e}},
		{`With(Group("e", Group("f")))`, func(l *logger.Logger) *logger.Logger { return l.With(ef) }, []any{ef}},
		{`With(route={)`, func(l *logger.Logger) *logger.Logger { return l.With("route", "{") }, []any{"route", "{"}},
		{`With(route=})`, func(l *logger.Logger) *logger.Logger { return l.With("route", "}") }, []any{"route", "}"}},
		{`With(route=/v1/items/{id)`, func(l *logger.Logger) *logger.Logger { return l.With("route", "/v1/items/{id") }, []any{"route", "/v1/items/{id"}},
		{`With(route=}{)`, func(l *logger.Logger) *logger.Logger { return l.With("route", "}{") }, []any{"route", "}{"}},
		{`With(route=[)`, func(l *logger.Logger) *logger.Logger { return l.With("route", "[") }, []any{"route", "["}},
		{`With(route=")`, func(l *logger.Logger) *logger.Logger { return l.With("route", "\"") }, []any{"route", "\""}},
		{`With(route=\\)`, func(l *logger.Logger) *logger.Logger { return l.With("route", "\\") }, []any{"route", "\\"}},
		{`With(route=a,b)`, func(l *logger.Logger) *logger.Logger { return l.With("route", "a,b") }, []any{"route", "a,b"}},
		{`With(route=:)`, func(l *logger.Logger) *logger.Logger { return l.With("route", ":") }, []any{"route", ":"}},
		{`With(route={"k":1})`, func(l *logger.Logger) *logger.Logger { return l.With("route", "{\"k\":1}") }, []any{"route", "{\"k\":1}"}},
		{`With(Group("{g", k=1))`, func(l *logger.Logger) *logger.Logger { return l.With(slog.Group("{g", "k", 1)) }, []any{slog.Group("{g", "k", 1)}},
	}
	for _, cx := range ctxs {
		for _, cs := range cases {
			for _, call := range [][]any{nil, {"p", "v"}} {
				evals++
				w1, w2 := &sink{}, &sink{}
				cs.with(cx.mk(newRoot(kind, w1))).Info("probe", call...)
				cx.mk(newRoot(kind, w2)).Info("probe", append(append([]any{}, cs.site...), call...)...)
				got, want := strings.Join(w1.chunks, ""), strings.Join(w2.chunks, "")
				if got != want {
					viols = append(viols, vcommon.Violation{Scenario: "E-" + handlerNames[kind] + "-empty-group-given-to-With",
						Fingerprint: fmt.Sprintf("empty-group|%s|%s|%s", handlerNames[kind], cx.name, cs.name),
						Message:     fmt.Sprintf("C03 (%s): %s.%s.Info(probe%v) wrote\n   %q\nbut with the same attributes passed at the call site, ahead of the call's own, the line is\n   %q", handlerNames[kind], cx.name, cs.name, call, clipS(got), clipS(want)),
						Witness:     map[string]any{"handler": handlerNames[kind], "context": cx.name, "derivation": cs.name}})
					return
				}
			}
		}
	}
	return
}

// reLV is a LogValuer that uses the library while it is being resolved (a cache that logs its
// misses, a lazily built description that derives a logger): at most once, so that a handler
// resolving a value twice is not mistaken for a difference.
type reLV struct {
	f    func()
	done *bool
}

func (r reLV) LogValue() slog.Value {
	if r.f != nil && !*r.done {
		*r.done = true
		r.f()
	}
	return slog.StringValue("resolved")
}

// reentrant: "built and used in any order" includes a use DURING another use. While a group
// attribute of logger A is rendered (at a log call, or by With), one of its members logs through
// another logger B of the same tree and derives a child C from B. What B, C, A and A's child write
// - then and afterwards - must be what the same loggers write when that member does not call
// back (the same operations, one after the other). Lines are compared as multisets.
func reentrant(kind int) (evals int, viols []vcommon.Violation, hung bool) {
	ctxs := []struct {
		name string
		mk   func(*logger.Logger) *logger.Logger
	}{
		{"root", func(l *logger.Logger) *logger.Logger { return l }},
		{"With(a=1)", func(l *logger.Logger) *logger.Logger { return l.With("a", 1) }},
		{"WithGroup(g)", func(l *logger.Logger) *logger.Logger { return l.WithGroup("g") }},
		{"With(a=1).WithGroup(g)", func(l *logger.Logger) *logger.Logger { return l.With("a", 1).WithGroup("g") }},
	}
	others := []struct {
		name string
		mk   func(root, a *logger.Logger) *logger.Logger
	}{
		{"the root", func(root, a *logger.Logger) *logger.Logger { return root }},
		{"a sibling root.With(b=1)", func(root, a *logger.Logger) *logger.Logger { return root.With("b", 1) }},
		{"a sibling root.WithGroup(h)", func(root, a *logger.Logger) *logger.Logger { return root.WithGroup("h") }},
		{"the logger itself", func(root, a *logger.Logger) *logger.Logger { return a }},
		{"a child of the logger", func(root, a *logger.Logger) *logger.Logger { return a.With("c", 1) }},
	}
	run := func(cx, ot, mode int, callBack bool) []string {
		w := &sink{}
		root := newRoot(kind, w)
		a := ctxs[cx].mk(root)
		b := others[ot].mk(root, a)
		var c *logger.Logger
		inner := func() {
			b.Info("inner", "k", 2)
			c = b.With(slog.Group("cg", "z", 3))
		}
		done := false
		lv := reLV{done: &done}
		if callBack {
			lv.f = inner
		} else {
			inner()
		}
		attr := slog.Group("ga", "k1", lv, "x", 1)
		switch mode {
		case 0:
			a.Info("outer", attr, "y", 2)
		case 1:
			d := a.With(attr)
			d.Info("outer-through-child", "y", 2)
		default:
			d := a.With("w", lv)
			d.Info("outer-through-child-2", attr)
		}
		if c != nil {
			c.Info("later through the child derived meanwhile")
		}
		b.Info("afterwards", "q", 1)
		a.Info("afterwards-outer", slog.Group("ga", "k2", "v"))
		lines := strings.Split(strings.Join(w.chunks, ""), "\n")
		sort.Strings(lines)
		return lines
	}
	type res struct {
		evals int
		viols []vcommon.Violation
	}
	ch := make(chan res, 1)
	go func() {
		var r res
		for cx := range ctxs {
			for ot := range others {
				for mode := 0; mode < 3; mode++ {
					r.evals++
					got, want := run(cx, ot, mode, true), run(cx, ot, mode, false)
					if strings.Join(got, "\n") != strings.Join(want, "\n") {
						diff := ""
						for i := range got {
							if i >= len(want) || got[i] != want[i] {
								w := "<nothing>"
								if i < len(want) {
									w = want[i]
								}
								diff = fmt.Sprintf("   %q\ninstead of\n   %q", clipS(got[i]), clipS(w))
								break
							}
						}
						if diff == "" {
							diff = fmt.Sprintf("   %d lines instead of %d", len(got), len(want))
						}
						modes := []string{"a log call", "With", "With (plain attribute) followed by a log call"}
						r.viols = append(r.viols, vcommon.Violation{Scenario: "R-" + handlerNames[kind] + "-use-during-use",
							Fingerprint: fmt.Sprintf("reentrant|%s|%s|%s|%d", handlerNames[kind], ctxs[cx].name, others[ot].name, mode),
							Message:     fmt.Sprintf("C03 (%s): while a group attribute of logger %s is rendered by %s, one of its members (a LogValuer) logs through %s and derives a child from it; the lines written differ from those of the same operations done one after the other:\n%s", handlerNames[kind], ctxs[cx].name, modes[mode], others[ot].name, diff),
							Witness:     map[string]any{"handler": handlerNames[kind], "logger": ctxs[cx].name, "other": others[ot].name, "mode": mode}})
						ch <- r
						return
					}
				}
			}
		}
		ch <- r
	}()
	select {
	case r := <-ch:
		return r.evals, r.viols, false
	case <-time.After(60 * time.Second):
		// an implementation that renders under a lock cannot be called back into; the statement does not forbid that
		return 0, nil, true
	}
}

// deepSiblings: deep but narrow - a parent d derivation steps below the root (d = 1..20, steps of
// With, or With and WithGroup alternating), then two children derived from it; the first child,
// the parent and the second child log after both exist. Compared with the same loggers built
// alone. (A per-step list of segments has spare capacity only at certain depths.)
func deepSiblings(kind int) (evals int, viols []vcommon.Violation) {
	build := func(w *sink, d, flavour int, which int) *logger.Logger {
		l := newRoot(kind, w)
		for i := 0; i < d; i++ {
			if flavour == 1 && i%2 == 1 {
				l = l.WithGroup(fmt.Sprintf("g%d", i))
			} else {
				l = l.With(fmt.Sprintf("k%d", i), i)
			}
		}
		mk := func(j int) *logger.Logger {
			if flavour == 2 {
				return l.WithGroup([]string{"first", "second"}[j]).With("in", j)
			}
			return l.With("k", []string{"first", "second"}[j])
		}
		switch which {
		case 0: // both children exist, the first one is returned
			c1 := mk(0)
			mk(1)
			return c1
		case 1:
			mk(0)
			return mk(1)
		case 2:
			mk(0)
			mk(1)
			return l
		case 3:
			return mk(0)
		case 4:
			return mk(1)
		}
		return l
	}
	for d := 1; d <= 20; d++ {
		for flavour := 0; flavour < 3; flavour++ {
			for which := 0; which < 3; which++ {
				evals++
				w1, w2 := &sink{}, &sink{}
				build(w1, d, flavour, which).Info("probe", "p", 1)
				build(w2, d, flavour, which+3).Info("probe", "p", 1)
				got, want := strings.Join(w1.chunks, ""), strings.Join(w2.chunks, "")
				if got != want {
					viols = append(viols, vcommon.Violation{Scenario: "D-" + handlerNames[kind] + "-deep-parent-two-children",
						Fingerprint: fmt.Sprintf("deep-siblings|%s|%d|%d|%d", handlerNames[kind], d, flavour, which),
						Message:     fmt.Sprintf("C03 (%s): a parent %d derivation steps below the root (flavour %d) gets two children; %s then writes\n   %q\nbuilt alone it writes\n   %q", handlerNames[kind], d, flavour, []string{"the first child", "the second child", "the parent"}[which], clipS(got), clipS(want)),
						Witness:     map[string]any{"handler": handlerNames[kind], "depth": d, "flavour": flavour, "who": which}})
					return
				}
			}
		}
	}
	return
}

// wideWith: wide but shallow - one With carrying n attributes, for every n on a grid that walks
// the rendered size through every buffer growth step and size limit up to about 36 KiB; then a
// sibling is derived and everybody logs. Compared with the same loggers built alone.
func wideWith(kind int) (evals int, viols []vcommon.Violation) {
	old := debug.SetGCPercent(-1) // a collection would empty sync.Pool at an arbitrary moment
	defer debug.SetGCPercent(old)
	attrs := func(n int) []any {
		var a []any
		for i := 0; i < n; i++ {
			a = append(a, fmt.Sprintf("k%04d", i), 100000000+i)
		}
		return a
	}
	for n := 20; n <= 1600; n += 20 {
		evals++
		w := &sink{}
		root := newRoot(kind, w)
		parent := root.With("a", 1)
		c := parent.With(attrs(n)...)
		d := parent.With("d", 4)
		type probe struct {
			name  string
			l     *logger.Logger
			alone func(*logger.Logger) *logger.Logger
		}
		probes := []probe{
			{"sibling derived after the wide one", d, func(r *logger.Logger) *logger.Logger { return r.With("a", 1).With("d", 4) }},
			{"the wide logger", c, func(r *logger.Logger) *logger.Logger { return r.With("a", 1).With(attrs(n)...) }},
			{"parent", parent, func(r *logger.Logger) *logger.Logger { return r.With("a", 1) }},
			{"the wide logger again", c, func(r *logger.Logger) *logger.Logger { return r.With("a", 1).With(attrs(n)...) }},
			{"a grandchild of the wide logger", c.WithGroup("g").With("z", 26), func(r *logger.Logger) *logger.Logger {
				return r.With("a", 1).With(attrs(n)...).WithGroup("g").With("z", 26)
			}},
		}
		for _, p := range probes {
			w.chunks = nil
			p.l.Info("probe", "p", "v")
			got := strings.Join(w.chunks, "")
			w2 := &sink{}
			p.alone(newRoot(kind, w2)).Info("probe", "p", "v")
			want := strings.Join(w2.chunks, "")
			if got != want {
				viols = append(viols, vcommon.Violation{Scenario: "W-" + handlerNames[kind] + "-wide-With",
					Fingerprint: fmt.Sprintf("wide-with|%s|%d|%s", handlerNames[kind], n, p.name),
					Message:     fmt.Sprintf("C03 (%s): parent = root.With(a=1); c = parent.With(%d attributes); d = parent.With(d=4): %s wrote\n   %q\nbuilt alone from a fresh root it writes\n   %q", handlerNames[kind], n, p.name, clipMid(got), clipMid(want)),
					Witness:     map[string]any{"handler": handlerNames[kind], "attributes": n, "logger": p.name}})
				return
			}
		}
	}
	return
}

func clipMid(s string) string {
	if len(s) > 400 {
		return s[:200] + "…" + s[len(s)-160:]
	}
	return s
}

func clipS(s string) string {
	if len(s) > 300 {
		return s[:300] + "…"
	}
	return s
}

func main() {
	fake := time.Date(2023, 8, 16, 0, 35, 15, 208873091, time.FixedZone("", 8*3600))
	vtime.SetFake(&fake)
	P := func(b ...int) sdrive.Plan { return sdrive.Plan{Bounds: b} }
	PS := func(n int, b ...int) sdrive.Plan { return sdrive.Plan{Bounds: b, Shards: n} }
	var scens []sdrive.Scenario
	for k := 0; k < 3; k++ {
		scens = append(scens, sdrive.Scenario{Name: "S-" + handlerNames[k] + "-2derivers", Props: []string{"C03"},
			About: "two goroutines derive from the same non-root parent (which carries attributes and an open group), log through child, parent and grandchild",
			Quick: P(0, 1, 2), Thorough: PS(16, 0, 1, 2, 3), Body: sbody(k), MinOutcomes: 3})
	}
	sdrive.Budget = 0.6 // the rest of the time cap belongs to the sequential part below
	cov, viols := sdrive.Collect(scens)
	depth := 4
	if vcommon.Thorough() {
		depth, maxNodes = 5, 6
	}
	states, trans := 0, 0
	complete := true
	nontriv := 0
	emptyEvals := 0
	for kind := 0; kind < 3; kind++ {
		n, v := emptyGroupGivenToWith(kind)
		emptyEvals += n
		viols = append(viols, v...)
	}
	cov["empty_group_given_to_With_cases"] = emptyEvals
	wideEvals := 0
	for kind := 0; kind < 3; kind++ {
		n, v := wideWith(kind)
		wideEvals += n
		viols = append(viols, v...)
	}
	cov["wide_With_cases"] = wideEvals
	deepEvals := 0
	for kind := 0; kind < 3; kind++ {
		n, v := deepSiblings(kind)
		deepEvals += n
		viols = append(viols, v...)
	}
	cov["deep_parent_two_children_cases"] = deepEvals
	reEvals := 0
	for kind := 0; kind < 3; kind++ {
		n, v, hung := reentrant(kind)
		reEvals += n
		viols = append(viols, v...)
		if hung {
			fmt.Println("WARNING: the use-during-use pass did not come back for the " + handlerNames[kind] + " handler (rendering under a lock?): not judged")
			cov["use_during_use_not_judged"] = handlerNames[kind]
		}
	}
	cov["use_during_use_cases"] = reEvals
	var searches []*vstate.Result
	for kind := 0; kind < 3; kind++ {
		kind := kind
		nt := 0
		r := vstate.Explore(vstate.Config[*sys]{Name: "H-" + handlerNames[kind] + "-derivation-trees", NOps: 6 * nDerive,
			OpName: func(op int) string { return fmt.Sprintf("derive(node %d, %s)", op/nDerive, deriveOps("N")[op%nDerive]) },
			New:    func() *sys { return newSys(kind) },
			Apply:  apply, Canon: canon,
			Check: func(s *sys) string {
				if s.nontrivial {
					nt++
				}
				return s.check()
			},
			Enabled:  func(s *sys, op int) bool { return op/nDerive < len(s.nodes) && len(s.nodes) < maxNodes },
			MaxDepth: depth, Deadline: vcommon.Deadline()})
		fmt.Println(r, "aliasing-precondition-histories:", nt)
		searches = append(searches, r)
		states += r.States
		trans += r.Transitions
		complete = complete && r.Complete
		nontriv += nt
		for _, f := range r.Failures {
			viols = append(viols, vcommon.Violation{Scenario: r.Name, Fingerprint: r.Name + "|" + strings.Join(f.Ops, ";"),
				Message: f.Msg + "\nhistory: " + strings.Join(f.Ops, " ; "), Witness: map[string]any{"ops": f.Ops, "handler": handlerNames[kind]}})
		}
	}
	if nontriv == 0 && len(viols) == 0 && complete {
		// the handlers keep rendered attributes differently from what this bookkeeping knows (a
		// private slice called preformatted): the histories were judged all the same, only the
		// count of histories meeting the aliasing precondition is not available
		fmt.Println("WARNING: no history met the aliasing precondition as this check counts it (spare capacity in a private slice named preformatted)")
		cov["vacuity_warnings"] = []any{"aliasing precondition not observable"}
	}
	cov["states"] = cov["states"].(int) + states
	cov["transitions"] = cov["transitions"].(int) + trans
	cov["traces_validated_against_impl"] = cov["traces_validated_against_impl"].(int) + trans
	cov["history_searches"] = searches
	cov["histories_with_aliasing_precondition"] = nontriv
	cov["exhaustive"] = cov["exhaustive"].(bool) && complete
	cov["samples"] = append(cov["samples"].([]any), map[string]any{"derivation_history": searches[2].Sample})
	code, n := vcommon.Report("C03", viols)
	vcommon.WriteEvidence(&vcommon.Evidence{PropertyID: "C03", Level: "model_checking", Coverage: cov, Violations: n, Assumptions: []string{
		"derivation alphabet: With(1 attr), With(3 attrs), With(group attr), WithGroup(g), WithGroup(h), With(empty inline LogValuer group + attr), WithGroup(49-byte name); trees of at most 5 loggers",
		"after every derivation every existing logger is probed (i.e. logs a record), so derive/log orders on different nodes are covered",
		"non-trivial = histories in which a parent whose rendered buffer has spare capacity has two or more children (the aliasing precondition), counted reflectively",
	}})
	os.Exit(code)
}
