// Command c04 decides C04: the router dispatches every request to exactly one handler by
// the documented precedence. Every table of up to 2 (quick) / 3 (thorough) successfully
// registered routes over a small pattern alphabet is built on the real Mux in every
// registration order (the resulting tries must be identical), and probed with every
// request path of a small alphabet and 5 method strings through Mux.ServeHTTP; an
// independent reference router written from the statement decides what must happen.
package main

import (
	"encoding/json"
	"flag"
	"fmt"
	"net/http"
	"net/url"
	"os"
	"sort"
	"strings"
	"time"

	"github.com/whoisnian/glb/httpd"
	"verif/engine/vcommon"
)

// ---------------------------------------------------------------- reference router (from the statement)

type refRoute struct {
	idx     int
	pattern string
	method  string
	names   []string // parameter names in order; "*" for the trailing any
}

type refNode struct {
	lit    map[string]*refNode
	param  *refNode
	any    *refNode
	routes map[string]*refRoute // by method
}

func newRefNode() *refNode {
	return &refNode{lit: map[string]*refNode{}, routes: map[string]*refRoute{}}
}

func refInsert(root *refNode, r *refRoute) {
	n := root
	for _, seg := range strings.Split(r.pattern, "/") {
		if seg == "" {
			continue
		}
		if seg == "*" {
			if n.any == nil {
				n.any = newRefNode()
			}
			n = n.any
			r.names = append(r.names, "*")
			break
		}
		if seg[0] == ':' {
			if n.param == nil {
				n.param = newRefNode()
			}
			n = n.param
			r.names = append(r.names, seg[1:])
			continue
		}
		if n.lit[seg] == nil {
			n.lit[seg] = newRefNode()
		}
		n = n.lit[seg]
	}
	n.routes[r.method] = r
}

func (n *refNode) forMethod(m string) *refRoute {
	if r, ok := n.routes[m]; ok && m != "" {
		return r
	}
	return n.routes["*"]
}

var knownMethods = map[string]bool{"GET": true, "HEAD": true, "POST": true, "PUT": true, "PATCH": true, "DELETE": true, "CONNECT": true, "OPTIONS": true, "TRACE": true}

// refFind returns the selected route (nil = no-route handler) and the bound values.
func refFind(root *refNode, path, method string) (*refRoute, []string) {
	if !knownMethods[method] {
		method = "\x00unknown" // only a '*' route can serve it
	}
	if path == "" {
		path = "/"
	}
	if path == "/" {
		if r := root.forMethod(method); r != nil {
			return r, nil
		}
	}
	n := root
	var vals []string
	rest := path[1:]
	off := 1
	segs := strings.Split(rest, "/")
	for i, seg := range segs {
		last := i == len(segs)-1
		if seg == "" && !last {
			off++
			continue
		}
		switch {
		case n.lit[seg] != nil && seg != "":
			n = n.lit[seg]
		case n.param != nil:
			n = n.param
			vals = append(vals, seg)
		case n.any != nil:
			n = n.any
			vals = append(vals, path[off:])
			if r := n.forMethod(method); r != nil {
				return r, vals
			}
			return nil, nil
		default:
			return nil, nil
		}
		off += len(seg) + 1
	}
	if r := n.forMethod(method); r != nil {
		return r, vals
	}
	return nil, nil
}

// ---------------------------------------------------------------- alphabet

type routeSpec struct {
	pattern, method string
}

func patterns(maxSeg int) []string {
	syms := []string{"a", "b", ":x", ":y", "*"}
	out := []string{"/"}
	var rec func(prefix string, n int)
	rec = func(prefix string, n int) {
		if n == 0 {
			return
		}
		for _, s := range syms {
			p := prefix + "/" + s
			out = append(out, p)
			if s != "*" {
				rec(p, n-1)
			}
		}
	}
	rec("", maxSeg)
	out = append(out, "//a", "/a/", "/a//b", "/:x/", "//") // (a '*' that is not the last segment is not defined by the statement)
	// registrations that are rejected after part of the pattern has been walked
	out = append(out, "/a/:x/:x", "/:x/b/:x", "/a/:", "/:")
	// literal segments that merely begin like a parameter or the wildcard
	out = append(out, "/*x", "/a/*b", "/**", "/*x/:y")
	return out
}

func requestPaths() []string {
	syms := []string{"a", "b", "c", ":x", "*", ""}
	seen := map[string]bool{}
	var out []string
	add := func(p string) {
		if !seen[p] {
			seen[p] = true
			out = append(out, p)
		}
	}
	var rec func(prefix string, n int, alpha []string)
	rec = func(prefix string, n int, alpha []string) {
		if n == 0 {
			return
		}
		for _, s := range alpha {
			p := prefix + "/" + s
			add(p)
			add(p + "/")
			rec(p, n-1, alpha)
		}
	}
	add("/")
	rec("", 3, syms)
	rec("", 4, []string{"a", ":x", ""})
	// segments spelled like plausible internal placeholder keys must be ordinary text
	rec("", 3, []string{"a", ":param", ":any", "*", ":"})
	rec("", 3, []string{"a", "*x", "*b", "**", "*"})
	for _, p := range []string{"", "*", "a", "a/b", "a/", ":x", "ab/c", "\x00", "/a\x00b", "/%2F", "/a b", "/é/a"} {
		add(p)
	}
	return out
}

var reqMethods = []string{"GET", "POST", "PUT", "", "BREW"}

// ---------------------------------------------------------------- harness

type obs struct {
	calls   []int // indexes of handlers invoked (-1 = no-route)
	info    *httpd.RouteInfo
	params  map[string]string
	any     string
	paniced any
}

type bench struct {
	specs     []routeSpec
	handlers  []httpd.HandlerFunc
	noRoute   httpd.HandlerFunc
	cur       *obs
	panicNext bool // the next handler invoked panics instead of observing
	names     []string
}

func newBench(specs []routeSpec) *bench {
	// names probed inside a matched handler; what RouteParam returns for spellings of the internal
	// keys ("*", "/:any") is not defined by the statement and not probed
	b := &bench{specs: specs, names: []string{"x", "y", "z", ""}}
	for i := range specs {
		i := i
		b.handlers = append(b.handlers, func(s *httpd.Store) { b.observe(i, s) })
	}
	b.noRoute = func(s *httpd.Store) { b.observe(-1, s) }
	return b
}

// handlerPanic is what a handler panics with when the harness asks it to (net/http recovers
// such panics and goes on serving with the same Mux)
const handlerPanic = "handler panic (asked for by the harness)"

func (b *bench) observe(i int, s *httpd.Store) {
	o := b.cur
	if b.panicNext {
		b.panicNext = false
		if i >= 0 {
			s.W.WriteHeader(503)
		}
		panic(handlerPanic)
	}
	o.calls = append(o.calls, i)
	o.info = s.I
	o.params = map[string]string{}
	if i < 0 {
		return // what the no-route handler sees through the parameter accessors is C05's subject
	}
	for _, n := range b.names {
		o.params[n] = s.RouteParam(n)
	}
	o.any = s.RouteParamAny()
}

// build registers the routes of table (indexes into specs) in the given order. A registration
// that panics is recovered, as a caller may do, and the following ones are still made: the
// routes the Mux then has are the successfully registered ones, returned in order.
func (b *bench) build(table []int) (mux *httpd.Mux, registered []int) {
	mux = httpd.NewMux()
	mux.HandleNoRoute(b.noRoute)
	for _, i := range table {
		func() {
			defer func() {
				if recover() == nil {
					registered = append(registered, i)
				}
			}()
			mux.Handle(b.specs[i].pattern, b.specs[i].method, b.handlers[i])
		}()
	}
	return mux, registered
}

// nullWriter is a ResponseWriter that accepts everything.
type nullWriter struct{ h http.Header }

func (w *nullWriter) Header() http.Header         { return w.h }
func (w *nullWriter) Write(p []byte) (int, error) { return len(p), nil }
func (w *nullWriter) WriteHeader(int)             {}

// rawPath, when set, gives the request an encoded spelling next to the decoded path (what the URL
// parser does for escapes it does not consider canonical): dispatch goes by the decoded path
var rawPath = false

func (b *bench) serve(mux *httpd.Mux, path, method string) (o *obs) {
	o = &obs{}
	b.cur = o
	defer func() {
		if r := recover(); r != nil {
			o.paniced = r
		}
	}()
	u := &url.URL{Path: path}
	if rawPath {
		u.RawPath = strings.NewReplacer("a", "%61", "/", "%2F", ":", "%3A", "*", "%2A").Replace(path)
		if strings.HasPrefix(path, "/") {
			u.RawPath = "/" + strings.TrimPrefix(u.RawPath, "%2F")
		}
	}
	mux.ServeHTTP(&nullWriter{h: http.Header{}}, &http.Request{Method: method, URL: u, RequestURI: path, Header: http.Header{}})
	return o
}

// outOfTime notes that the tier's time cap was reached (what was enumerated below it is complete).
func (st *stats) outOfTime() bool {
	if !st.Incomplete && time.Now().After(vcommon.Deadline()) {
		st.Incomplete = true
	}
	return st.Incomplete
}

type stats struct {
	Incomplete                                bool
	Tables, Rejected, Dispatches, OrderChecks int
	Matched, NoRoute, Loose                   int
	Outcomes                                  map[string]int
	Viols                                     []vcommon.Violation
	Samples                                   []string
}

func permutations(t []int) [][]int {
	if len(t) <= 1 {
		return [][]int{append([]int{}, t...)}
	}
	var out [][]int
	for i := range t {
		rest := append(append([]int{}, t[:i]...), t[i+1:]...)
		for _, p := range permutations(rest) {
			out = append(out, append([]int{t[i]}, p...))
		}
	}
	return out
}

func (b *bench) checkTable(table []int, paths []string, st *stats) {
	// every registration order of the same calls is judged against the documented walk over
	// the routes that were registered successfully in that order
	perms := permutations(table)
	if len(table) >= 3 {
		perms = [][]int{perms[0], perms[len(perms)-1]} // as registered and reversed
	}
	for pi, p := range perms {
		mux, registered := b.build(p)
		isReg := map[int]bool{}
		for _, i := range registered {
			isReg[i] = true
		}
		var d []string
		for _, i := range p {
			e := b.specs[i].method + " " + b.specs[i].pattern
			if !isReg[i] {
				e += " (rejected)"
			}
			d = append(d, e)
		}
		if pi == 0 {
			st.Tables++
			if len(registered) < len(p) {
				st.Rejected++
			}
		} else {
			st.OrderChecks++
		}
		desc := "{" + strings.Join(d, ", ") + "}"
		if !b.judgeTable(mux, p, registered, desc, paths, st, pi == 0) {
			return
		}
		if pi == 0 && len(registered) > 0 && len(table) <= 1 {
			rawPath = true
			ok := b.judgeTable(mux, p, registered, desc+" with URL.RawPath set", paths, st, false)
			rawPath = false
			if !ok {
				return
			}
		}
		if pi == 0 && len(registered) > 0 && len(table) <= 2 {
			// a handler panic (one per kind of route in the table, and one in the no-route handler)
			// must leave the Mux dispatching as before
			for _, pp := range append(matchingPaths(b, registered), "/no/such/route/at/all") {
				b.panicNext = true
				o := b.serve(mux, pp, b.specs[registered[0]].method)
				b.panicNext = false
				if o.paniced != nil && !strings.Contains(fmt.Sprint(o.paniced), handlerPanic) { // the handler's own panic, possibly wrapped on its way out
					st.Viols = append(st.Viols, vcommon.Violation{Scenario: "dispatch", Fingerprint: fmt.Sprintf("%s|panicking-handler|%q", desc, pp),
						Message: fmt.Sprintf("C04: table %s, request %q whose handler panics: ServeHTTP panicked on its own account: %v", desc, pp, o.paniced), Witness: map[string]any{"table": desc, "path": pp}})
					return
				}
			}
			if !b.judgeTable(mux, p, registered, desc+" after requests whose handlers panicked", paths, st, false) {
				return
			}
		}
	}
}

// matchingPaths gives, for every registered route, a request path it matches.
func matchingPaths(b *bench, registered []int) []string {
	var out []string
	for _, i := range registered {
		var segs []string
		for _, sg := range strings.Split(b.specs[i].pattern, "/") {
			switch {
			case sg == "":
			case sg == "*":
				segs = append(segs, "w", "z")
			case sg[0] == ':':
				segs = append(segs, "v"+sg[1:])
			default:
				segs = append(segs, sg)
			}
			if sg == "*" {
				break
			}
		}
		out = append(out, "/"+strings.Join(segs, "/"))
	}
	return out
}

func (b *bench) judgeTable(mux *httpd.Mux, calls, table []int, desc string, paths []string, st *stats, first bool) bool {
	root := newRefNode()
	var refs []*refRoute
	for _, i := range table {
		r := &refRoute{idx: i, pattern: b.specs[i].pattern, method: b.specs[i].method}
		refInsert(root, r)
		refs = append(refs, r)
	}
	for _, path := range paths {
		for _, method := range reqMethods {
			st.Dispatches++
			o := b.serve(mux, path, method)
			fail := func(msg string) {
				st.Viols = append(st.Viols, vcommon.Violation{Scenario: "dispatch", Fingerprint: fmt.Sprintf("%s|%q|%s", desc, path, method),
					Message:  fmt.Sprintf("C04: table %s, request %s %q: %s", desc, method, path, msg),
					Witness:  map[string]any{"table": desc, "path": path, "method": method},
					ReplayGo: replayGo(b, calls, path, method)})
			}
			if o.paniced != nil {
				fail(fmt.Sprintf("ServeHTTP panicked: %v", o.paniced))
				return false
			}
			if len(o.calls) != 1 {
				fail(fmt.Sprintf("%d handlers ran (%v), want exactly one", len(o.calls), o.calls))
				return false
			}
			if !strings.HasPrefix(path, "/") && path != "" {
				// segmentation of a path without leading slash is not defined by the statement:
				// one handler, once, no panic is all that is required
				st.Loose++
				continue
			}
			want, vals := refFind(root, path, method)
			if want == nil {
				st.NoRoute++
				if o.calls[0] != -1 {
					fail(fmt.Sprintf("handler of route #%d (%s %s) ran, the documented walk finds no route", o.calls[0], b.specs[o.calls[0]].method, b.specs[o.calls[0]].pattern))
					return false
				}
				continue
			}
			st.Matched++
			if o.calls[0] != want.idx {
				got := "the no-route handler"
				if o.calls[0] >= 0 {
					got = fmt.Sprintf("route %s %s", b.specs[o.calls[0]].method, b.specs[o.calls[0]].pattern)
				}
				fail(fmt.Sprintf("%s ran, the documented precedence selects %s %s", got, want.method, want.pattern))
				return false
			}
			if o.info == nil || o.info.Path != want.pattern || o.info.Method != want.method {
				fail(fmt.Sprintf("Store.I = %+v, want the info of %s %s", o.info, want.method, want.pattern))
				return false
			}
			wantParams := map[string]string{}
			wantAny := ""
			for k, n := range want.names {
				if n == "*" {
					wantAny = vals[k]
				} else {
					wantParams[n] = vals[k]
				}
			}
			for _, n := range b.names {
				w := wantParams[n]
				if o.params[n] != w {
					fail(fmt.Sprintf("RouteParam(%q)=%q, want %q", n, o.params[n], w))
					return false
				}
			}
			if o.any != wantAny {
				fail(fmt.Sprintf("RouteParamAny()=%q, want %q", o.any, wantAny))
				return false
			}
			if st.Outcomes != nil {
				st.Outcomes[fmt.Sprintf("%s %s", want.method, want.pattern)]++
			}
		}
	}
	return true
}

func replayGo(b *bench, table []int, path, method string) string {
	var sb strings.Builder
	sb.WriteString("package httpd_test\n\nimport (\n\t\"net/http\"\n\t\"net/http/httptest\"\n\t\"net/url\"\n\t\"testing\"\n\n\t\"github.com/whoisnian/glb/httpd\"\n)\n\nfunc TestReplayC04(t *testing.T) {\n\tmux := httpd.NewMux()\n\tvar ran []string\n\tmux.HandleNoRoute(func(s *httpd.Store) { ran = append(ran, \"no-route\") })\n")
	for _, i := range table {
		fmt.Fprintf(&sb, "\tfunc() {\n\t\tdefer func() { recover() }() // a rejected registration panics\n\t\tmux.Handle(%q, %q, func(s *httpd.Store) { ran = append(ran, %q) })\n\t}()\n", b.specs[i].pattern, b.specs[i].method, b.specs[i].method+" "+b.specs[i].pattern)
	}
	fmt.Fprintf(&sb, "\tmux.ServeHTTP(httptest.NewRecorder(), &http.Request{Method: %q, URL: &url.URL{Path: %q}, Header: http.Header{}})\n\tt.Logf(\"handlers run: %%v\", ran)\n}\n", method, path)
	return sb.String()
}

var nFlag = flag.Int("n", 0, "worker: table size")

func main() {
	flag.Parse()
	paths := requestPaths()
	maxSeg := 2
	var specs []routeSpec
	for _, p := range patterns(maxSeg) {
		for _, m := range []string{"GET", "POST", "*"} {
			specs = append(specs, routeSpec{p, m})
		}
	}
	// single-route tables also use 3-segment patterns and the other methods
	var specs1 []routeSpec
	for _, p := range patterns(3) {
		for _, m := range []string{"GET", "POST", "*", "DELETE", "CONNECT"} {
			specs1 = append(specs1, routeSpec{p, m})
		}
	}
	if i, n, worker := vcommon.ShardSpec(); worker {
		st := &stats{Outcomes: map[string]int{}}
		switch *nFlag {
		case 1:
			b := newBench(specs1)
			for a := range specs1 {
				if a%n == i {
					b.checkTable([]int{a}, paths, st)
				}
			}
		case 2:
			b := newBench(specs)
			k := 0
			for a := range specs {
				for c := a + 1; c < len(specs); c++ {
					k++
					if k%n == i && len(st.Viols) == 0 && !st.outOfTime() {
						b.checkTable([]int{a, c}, paths, st)
					}
				}
			}
		case 3:
			b := newBench(specs)
			k := 0
			for a := range specs {
				for c := a + 1; c < len(specs); c++ {
					for d := c + 1; d < len(specs); d++ {
						k++
						if k%n == i && len(st.Viols) == 0 && !st.outOfTime() {
							b.checkTable([]int{a, c, d}, paths, st)
						}
					}
				}
			}
		}
		if len(st.Viols) > 3 {
			st.Viols = st.Viols[:3]
		}
		json.NewEncoder(os.Stdout).Encode(st)
		return
	}
	np := vcommon.NProc()
	var jobs [][]string
	sizes := []int{1, 2}
	if vcommon.Thorough() {
		sizes = []int{1, 2, 3}
	}
	for _, sz := range sizes {
		for k := 0; k < np; k++ {
			jobs = append(jobs, []string{"-n", fmt.Sprint(sz), "-shard", fmt.Sprintf("%d/%d", k, np)})
		}
	}
	total := &stats{Outcomes: map[string]int{}}
	for _, out := range vcommon.RunJobs(jobs) {
		var st stats
		if err := json.Unmarshal(out, &st); err != nil {
			vcommon.Infra("bad worker output: %v", err)
		}
		total.Incomplete = total.Incomplete || st.Incomplete
		total.Tables += st.Tables
		total.Rejected += st.Rejected
		total.Dispatches += st.Dispatches
		total.OrderChecks += st.OrderChecks
		total.Matched += st.Matched
		total.NoRoute += st.NoRoute
		total.Loose += st.Loose
		for k, v := range st.Outcomes {
			total.Outcomes[k] += v
		}
		total.Viols = append(total.Viols, st.Viols...)
	}
	sort.Slice(total.Viols, func(i, j int) bool { return len(total.Viols[i].Message) < len(total.Viols[j].Message) })
	if len(total.Viols) > 5 {
		total.Viols = total.Viols[:5]
	}
	if total.Matched == 0 || total.NoRoute == 0 {
		if len(total.Viols) == 0 {
			vcommon.Infra("vacuous: matched=%d no-route=%d", total.Matched, total.NoRoute)
		}
	}
	code, n := vcommon.Report("C04", total.Viols)
	vcommon.WriteEvidence(&vcommon.Evidence{PropertyID: "C04", Level: "model_checking", Violations: n,
		Coverage: map[string]any{
			"states": total.Tables, "transitions": total.Dispatches, "traces_validated_against_impl": total.Dispatches,
			"evaluations": total.Dispatches, "distinct_nontrivial": len(total.Outcomes),
			"rule":       "states = route tables successfully built on the real Mux (all tables of the stated size over the pattern alphabet, every registration order, trie dumps compared); transitions = requests dispatched through Mux.ServeHTTP and judged by the reference router; distinct_nontrivial = distinct routes that were selected at least once",
			"exhaustive": !total.Incomplete, "tables_rejected_at_registration": total.Rejected, "registration_order_checks": total.OrderChecks,
			"requests_matched": total.Matched, "requests_no_route": total.NoRoute, "requests_without_leading_slash(loose oracle)": total.Loose,
			"request_paths": len(paths), "methods": reqMethods, "table_sizes": sizes,
			"samples": []any{map[string]any{"table": "{GET /a/:x, * /a/*}", "request": "POST /a/b/c", "expected": "* /a/* with any=\"b/c\""}, paths[:12], specs[:9]},
		},
		Assumptions: []string{"requests are constructed *http.Request values handed to Mux.ServeHTTP (URL.Path can be any string)", "for paths without a leading slash the statement does not define segmentation: only 'exactly one handler, once, no panic' is required there"}})
	fmt.Printf("tables=%d rejected=%d dispatches=%d matched=%d noroute=%d loose=%d routes-selected=%d\n", total.Tables, total.Rejected, total.Dispatches, total.Matched, total.NoRoute, total.Loose, len(total.Outcomes))
	os.Exit(code)
}
