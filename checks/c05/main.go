// Command c05 decides C05: pooled per-request state never leaks between requests.
// (H) explicit-state search over one real Mux: operations = serve one of 9 requests with
// a chosen pool behaviour (reuse latest / reuse older / miss), serve a request whose
// handler panics, register a further route with more parameters; every observation made
// inside relay, route and no-route handlers is compared with the same request on a fresh
// Mux. (S) 2-3 concurrent requests under the scheduler, same oracle, plus race detection.
package main

import (
	"fmt"
	"net/http"
	"net/url"
	"os"
	"reflect"
	"sort"
	"strings"
	"time"
	"unsafe"

	"github.com/whoisnian/glb/httpd"
	"verif/engine/sdrive"
	"verif/engine/shim/vsched"
	"verif/engine/shim/vsync"
	"verif/engine/vcommon"
	"verif/engine/vstate"
)

type route struct{ pattern, method string }

var baseRoutes = []route{
	{"/u/:a/:b", "GET"},
	{"/a/:x", "GET"},
	{"/s", "GET"},
	{"/v/:c/:d", "POST"},
	{"/w/*", "GET"},
}
var lateRoute = route{"/b/:x/:y/:z", "GET"}

var paramNames = []string{"a", "b", "x", "y", "z", "c", "d", "nope"}

type request struct{ method, path string }

// escapingPanic is the handler's own panic that is let through to the caller of ServeHTTP
const escapingPanic = "escaping handler panic"

var requests = []request{
	{"GET", "/u/1/2"},
	{"GET", "/a/7"},
	{"GET", "/s"},
	{"GET", "/v/8/9"},      // walks through two parameter nodes, then no method node: no-route
	{"GET", "/u/1"},        // partial walk, no route
	{"GET", "/nope"},       // no route at once
	{"GET", "/w/x/y"},      // trailing *
	{"GET", "/b/1/2/3"},    // matches only once the late route is registered
	{"GET", "/u/boom/1"},   // handler panics (recovered by the relay)
	{"GET", "/u/escape/1"}, // handler writes a status and panics; nobody below ServeHTTP recovers (net/http would)
	{"GET", "/u/9/"},       // trailing slash: the second parameter is the empty string
	{"GET", "/w/"},         // trailing slash on the * route: empty rest
	{"GET", "/u/fwd/1"},    // the handler forwards another request into the same Mux with its own writer (s.W), then looks again
	{"GET", "/u/sub/1"},    // the handler sets a status, serves an independent sub-request (fresh writer) through the same Mux, then looks again
	{"GET", "/u/reg/1"},    // the handler itself registers the late route (same goroutine, no concurrency): later requests see a table like any other
}

// regHung: an implementation may not support Handle from inside a handler (say, it holds a lock
// while serving); the statement does not demand it, so such a request is then not used at all
var regHung bool

// one observation made inside a handler
type seen struct {
	where  string
	vec    string
	id     string
	id2    string
	status int
}

type world struct {
	mux    *httpd.Mux
	routes []route
	late   bool
	log    []seen // observations of the request being served
	ids    []string
	yield  bool
	depth  int // > 0 while a request issued by a handler is being served (its observations are marked "inner:")
}

// me: the world the calling thread records into (S part), else w itself
func (w *world) me() *world {
	if t := vsched.Cur(); t != nil {
		if mine := curWorld[t]; mine != nil {
			return mine
		}
	}
	return w
}

func (w *world) observe(where string, s *httpd.Store) {
	if t := vsched.Cur(); t != nil {
		if mine := curWorld[t]; mine != nil {
			w = mine
		}
	}
	var b strings.Builder
	func() {
		defer func() {
			if r := recover(); r != nil {
				fmt.Fprintf(&b, " PANIC(%v)", r)
			}
		}()
		if s.I == nil {
			b.WriteString("I=nil")
		} else {
			fmt.Fprintf(&b, "I=%s %s", s.I.Method, s.I.Path)
		}
		for _, n := range paramNames {
			fmt.Fprintf(&b, " %s=%q", n, s.RouteParam(n))
		}
		fmt.Fprintf(&b, " any=%q", s.RouteParamAny())
	}()
	o := seen{where: strings.Repeat("inner:", w.depth) + where, vec: b.String(), status: s.W.Status}
	o.id = strings.Clone(s.GetID())
	if w.yield {
		vsched.Yield("in-handler")
	}
	o.id2 = strings.Clone(s.GetID())
	w.log = append(w.log, o)
}

func newWorld(late bool) *world {
	w := &world{mux: httpd.NewMux()}
	w.mux.HandleRelay(func(s *httpd.Store) {
		w.observe("relay", s)
		defer func() {
			if r := recover(); r == escapingPanic {
				panic(r)
			}
		}()
		s.I.HandlerFunc(s)
	})
	w.mux.HandleNoRoute(func(s *httpd.Store) { w.observe("no-route", s) })
	for _, r := range baseRoutes {
		w.register(r)
	}
	if late {
		w.register(lateRoute)
	}
	return w
}

func (w *world) register(r route) {
	w.routes = append(w.routes, r)
	w.mux.Handle(r.pattern, r.method, func(s *httpd.Store) {
		w.observe("route "+r.method+" "+r.pattern, s)
		if s.RouteParam("a") == "boom" {
			panic("handler panic")
		}
		if a := s.RouteParam("a"); (a == "fwd" || a == "sub") && w.me().depth == 0 {
			// a second request in flight on the same goroutine: the mounted-router / internal-redirect pattern
			var rw http.ResponseWriter = s.W
			if a == "sub" {
				s.W.WriteHeader(201)
				rw = &nullWriter{h: http.Header{}}
			}
			m := w.me()
			m.depth++
			func() {
				defer func() { m.depth-- }()
				w.mux.ServeHTTP(rw, &http.Request{Method: "GET", URL: &url.URL{Path: "/a/7"}, RequestURI: "/a/7", RemoteAddr: "10.0.0.2:99"})
			}()
			w.observe("route-after-inner-request", s)
		}
		if s.RouteParam("a") == "reg" && !w.me().late && w.me() == w {
			w.register(lateRoute)
			w.observe("route-after-registering", s)
		}
		if s.RouteParam("a") == "escape" {
			s.W.WriteHeader(503)
			panic(escapingPanic)
		}
	})
	if r == lateRoute {
		w.late = true
	}
}

type nullWriter struct{ h http.Header }

func (n *nullWriter) Header() http.Header         { return n.h }
func (n *nullWriter) Write(b []byte) (int, error) { return len(b), nil }
func (n *nullWriter) WriteHeader(int)             {}

func (w *world) serve(q request) (log []seen, escaped any) {
	w.log = nil
	defer func() {
		if r := recover(); r != nil {
			escaped = r
		}
		log = w.log
	}()
	req := &http.Request{Method: q.method, URL: &url.URL{Path: q.path}, RequestURI: q.path, RemoteAddr: "10.0.0.1:1234"}
	if strings.HasPrefix(q.path, "/u/reg/") {
		// guarded: registering from inside a handler may legitimately block for ever
		done := make(chan any, 1)
		go func() {
			defer func() { done <- recover() }()
			w.mux.ServeHTTP(&nullWriter{h: http.Header{}}, req)
		}()
		select {
		case r := <-done:
			if r != nil {
				panic(r)
			}
		case <-time.After(20 * time.Second):
			regHung = true
		}
		return
	}
	w.mux.ServeHTTP(&nullWriter{h: http.Header{}}, req)
	return
}

// reference: the same request on a fresh Mux with the same routes
type refT struct {
	log []seen
	esc any
}

var refCache = map[string]refT{}

func reference(q request, late bool) ([]seen, any) {
	k := fmt.Sprintf("%v|%v", q, late)
	if r, ok := refCache[k]; ok {
		return r.log, r.esc
	}
	var log []seen
	var esc any
	vsched.Free(func() {
		fw := newWorld(late)
		log, esc = fw.serve(q)
	})
	if esc != nil && strings.Contains(fmt.Sprint(esc), escapingPanic) {
		esc = nil // the handler's own panic
	}
	refCache[k] = refT{log, esc}
	return log, esc
}

// mask hides the per-Mux random prefix of a request id (messages must be reproducible)
func mask(id string) string {
	if len(id) > 9 && id[8] == '-' {
		return "<prefix>" + id[8:]
	}
	return fmt.Sprintf("<id of %d bytes>", len(id))
}

// counterPart is the part of an id that orders the requests of one Mux, where the id has one.
func counterPart(id string) string {
	if len(id) > 9 && id[8] == '-' {
		return id[9:]
	}
	return "id"
}

// compare returns "" when the observations of a request equal those on a fresh Mux.
func compare(q request, late bool, log []seen, escaped any) string {
	ref, refEscaped := reference(q, late)
	own := escaped != nil && strings.Contains(fmt.Sprint(escaped), escapingPanic) && strings.HasPrefix(q.path, "/u/escape/")
	if escaped != nil && !own && refEscaped == nil {
		// on a fresh Mux the same request is served without a panic: what went before leaked into it
		// (a request that panics on a fresh Mux as well is C04's subject, not this property's)
		return fmt.Sprintf("C05: ServeHTTP(%s %s) panicked although it does not on a fresh Mux with the same routes: %v", q.method, q.path, escaped)
	}
	if escaped != nil && !own {
		return ""
	}
	if len(log) != len(ref) {
		return fmt.Sprintf("C05: request %s %s made %d observations, on a fresh Mux %d", q.method, q.path, len(log), len(ref))
	}
	for i := range log {
		if log[i].where != ref[i].where || log[i].vec != ref[i].vec {
			return fmt.Sprintf("C05: request %s %s observed in %s:\n   %s\n on a fresh Mux (%s):\n   %s", q.method, q.path, log[i].where, log[i].vec, ref[i].where, ref[i].vec)
		}
		if log[i].status != ref[i].status {
			return fmt.Sprintf("C05: request %s %s sees W.Status=%d in %s, on a fresh Mux %d", q.method, q.path, log[i].status, log[i].where, ref[i].status)
		}
		first := log[0]
		inner := strings.HasPrefix(log[i].where, "inner:")
		if inner {
			for _, o := range log {
				if strings.HasPrefix(o.where, "inner:") {
					first = o
					break
				}
			}
			if log[i].id == log[0].id {
				return fmt.Sprintf("C05: request %s %s and the request its handler issued have the same id %q", q.method, q.path, mask(log[0].id))
			}
		}
		if log[i].id != log[i].id2 || log[i].id != first.id {
			return fmt.Sprintf("C05: request %s %s: GetID changed during the request (%q, %q, %q)", q.method, q.path, mask(first.id), mask(log[i].id), mask(log[i].id2))
		}
	}
	return ""
}

// ---------------------------------------------------------------- H: explicit-state search

type sys struct {
	w   *world
	ids map[string]bool
}

func poolOf(m *httpd.Mux) *vsync.Pool {
	// the Mux's pool of Stores, whatever the field is called: the first field that is a Pool
	mv := reflect.ValueOf(m).Elem()
	for i := 0; i < mv.NumField(); i++ {
		v := mv.Field(i)
		if !v.CanAddr() {
			continue
		}
		switch p := reflect.NewAt(v.Type(), unsafe.Pointer(v.UnsafeAddr())).Interface().(type) {
		case *vsync.Pool:
			return p
		case **vsync.Pool:
			return *p
		}
	}
	return nil
}

func field(v reflect.Value, name string) reflect.Value {
	f := v.FieldByName(name)
	if !f.IsValid() {
		return f
	}
	return reflect.NewAt(f.Type(), unsafe.Pointer(f.UnsafeAddr())).Elem()
}

func canon(s *sys) string {
	var b strings.Builder
	mv := reflect.ValueOf(s.w.mux).Elem()
	fmt.Fprintf(&b, "late=%v maxParams=%v pool:", s.w.late, field(mv, "maxParams"))
	if p := poolOf(s.w.mux); p != nil {
		var items []string
		for _, it := range p.Items() {
			st, isStore := it.(*httpd.Store)
			if !isStore {
				items = append(items, vstate.Dump(it)) // something else is pooled: its reflective dump stands for it
				continue
			}
			lenID := -1 // the private id field, where the Store has one of that name
			if idv := field(reflect.ValueOf(st).Elem(), "id"); idv.IsValid() && idv.Kind() == reflect.String {
				lenID = idv.Len()
			}
			full := st.P.V[:cap(st.P.V)] // stale values beyond len are part of the state: a reslice can expose them
			items = append(items, fmt.Sprintf("{K=%v lenV=%d capV=%d V=%q status=%d R=%v I=%v lenID=%d origin=%v}", st.P.K, len(st.P.V), cap(st.P.V), full, st.W.Status, st.R != nil, st.I != nil, lenID, st.W.Origin != nil))
		}
		b.WriteString(strings.Join(items, ";")) // order matters: it decides which store a choice returns
	}
	return b.String()
}

const nPool = 3

func opName(op int) string {
	if op == len(requests)*nPool {
		return "Handle(" + lateRoute.method + " " + lateRoute.pattern + ")"
	}
	q := requests[op/nPool]
	return fmt.Sprintf("serve(%s %s; pool:%s)", q.method, q.path, []string{"reuse-latest", "reuse-older", "miss"}[op%nPool])
}

func apply(s *sys, op int) string {
	if op == len(requests)*nPool {
		s.w.register(lateRoute)
		return ""
	}
	q, choice := requests[op/nPool], op%nPool
	if regHung && strings.HasPrefix(q.path, "/u/reg/") {
		return ""
	}
	vsync.FreeChooser = func(p *vsync.Pool, n int) int {
		switch choice {
		case 0:
			return 0
		case 1:
			if n >= 2 {
				return 1
			}
			return 0
		}
		return n
	}
	defer func() { vsync.FreeChooser = nil }()
	lateBefore := s.w.late // the table the request met (its handler may register the late route)
	log, esc := s.w.serve(q)
	if regHung {
		return "" // nothing is judged after a registration from inside a handler did not come back
	}
	if m := compare(q, lateBefore, log, esc); m != "" {
		return m
	}
	now := map[string]bool{}
	for _, o := range log {
		now[o.id] = true
	}
	for _, o := range log {
		if s.ids[o.id] {
			return fmt.Sprintf("C05: request id %q handed out twice by one Mux", mask(o.id))
		}
	}
	for id := range now {
		s.ids[id] = true
	}
	return ""
}

func enabled(s *sys, op int) bool {
	if op == len(requests)*nPool {
		return !s.w.late
	}
	if regHung && strings.HasPrefix(requests[op/nPool].path, "/u/reg/") {
		return false
	}
	if op%nPool == 1 {
		p := poolOf(s.w.mux)
		return p != nil && len(p.Items()) >= 2
	}
	return true
}

// ---------------------------------------------------------------- S: concurrent requests

func sbody(late bool, plan [][]int) func(c *vsched.Ctx) {
	return func(c *vsched.Ctx) {
		w := newWorld(late)
		w.yield = true
		// per-thread logs: observations are attributed through the request object
		type res struct {
			q   request
			log []seen
			esc any
		}
		results := make([][]res, len(plan))
		var all []*world
		for ti, qs := range plan {
			ti, qs := ti, qs
			// every thread gets its own recording world sharing the one Mux
			tw := &world{mux: w.mux, late: late, yield: true}
			all = append(all, tw)
			vsched.GoNamed(fmt.Sprintf("client%d", ti), func() {
				for _, qi := range qs {
					q := requests[qi]
					log, esc := serveVia(w, tw, q)
					results[ti] = append(results[ti], res{q, log, esc})
				}
			})
		}
		c.OnEnd(func() string {
			ids := map[string]bool{}
			var lab []string
			for ti, rs := range results {
				if len(rs) != len(plan[ti]) {
					return fmt.Sprintf("C05: client%d did not finish", ti)
				}
				for _, r := range rs {
					if m := compare(r.q, late, r.log, r.esc); m != "" {
						return m
					}
					if len(r.log) > 0 {
						if ids[r.log[0].id] {
							return fmt.Sprintf("C05: request id %q handed out twice by one Mux", mask(r.log[0].id))
						}
						ids[r.log[0].id] = true
						lab = append(lab, counterPart(r.log[0].id))
					}
				}
			}
			c.Outcome(strings.Join(lab, ","))
			return ""
		})
	}
}

// routing of observations to the issuing thread: the world's handlers write to cur[thread]
var curWorld = map[*vsched.Thread]*world{}

func serveVia(shared, mine *world, q request) ([]seen, any) {
	curWorld[vsched.Cur()] = mine
	defer delete(curWorld, vsched.Cur())
	mine.log = nil
	var esc any
	func() {
		defer func() {
			if r := recover(); r != nil {
				esc = r
			}
		}()
		shared.mux.ServeHTTP(&nullWriter{h: http.Header{}}, &http.Request{Method: q.method, URL: &url.URL{Path: q.path}, RequestURI: q.path, RemoteAddr: "10.0.0.1:1234"})
	}()
	return mine.log, esc
}

func main() {
	P := func(b ...int) sdrive.Plan { return sdrive.Plan{Bounds: b} }
	PS := func(n int, b ...int) sdrive.Plan { return sdrive.Plan{Bounds: b, Shards: n} }
	scens := []sdrive.Scenario{
		{Name: "S-2clients-param-vs-noroute", Props: []string{"C05"}, About: "two clients: /u/1/2 then /v/8/9 vs /a/7 then /nope",
			Quick: P(0, 1, -1), Thorough: PS(16, 0, 1, -1), Body: sbody(false, [][]int{{0, 3}, {1, 5}}), MinOutcomes: 2},
		{Name: "S-2clients-panic-any", Props: []string{"C05"}, About: "panicking handler vs trailing-* route then 2-parameter route",
			Quick: P(0, 1, -1), Thorough: PS(16, 0, 1, -1), Body: sbody(false, [][]int{{8, 1}, {6, 0}}), MinOutcomes: 2},
		{Name: "S-3clients", Props: []string{"C05"}, About: "three clients, one request each (2 params / 1 param / no route through parameter nodes)",
			Quick: PS(8, 0, 1, 2, 3), Thorough: PS(16, 0, 1, -1), Body: sbody(true, [][]int{{0}, {7}, {3}}), MinOutcomes: 2},
	}
	sdrive.Budget = 0.6 // the rest of the time cap belongs to the sequential part below
	cov, viols := sdrive.Collect(scens)
	// ---- H part (coordinator only)
	depth := 4
	if vcommon.Thorough() {
		depth = 6
	}
	nops := len(requests)*nPool + 1
	r := vstate.Explore(vstate.Config[*sys]{Name: "H-one-mux-histories", NOps: nops, OpName: opName,
		New:   func() *sys { return &sys{w: newWorld(false), ids: map[string]bool{}} },
		Apply: apply, Canon: canon, Check: func(*sys) string { return "" }, Enabled: enabled, MaxDepth: depth, Deadline: vcommon.Deadline()})
	fmt.Println(r)
	for _, f := range r.Failures {
		viols = append(viols, vcommon.Violation{Scenario: r.Name, Fingerprint: "H|" + strings.Join(f.Ops, ";"),
			Message: f.Msg + "\nhistory: " + strings.Join(f.Ops, " ; "), Witness: map[string]any{"ops": f.Ops}})
	}
	cov["states"] = cov["states"].(int) + r.States
	cov["transitions"] = cov["transitions"].(int) + r.Transitions
	cov["traces_validated_against_impl"] = cov["traces_validated_against_impl"].(int) + r.Transitions
	cov["history_search"] = r
	cov["exhaustive"] = cov["exhaustive"].(bool) && r.Complete
	cov["samples"] = append(cov["samples"].([]any), map[string]any{"history": r.Sample})
	var names []string
	for i := 0; i < nops; i++ {
		names = append(names, opName(i))
	}
	sort.Strings(names)
	cov["history_alphabet"] = names
	code, n := vcommon.Report("C05", viols)
	vcommon.WriteEvidence(&vcommon.Evidence{PropertyID: "C05", Level: "model_checking", Coverage: cov, Violations: n, Assumptions: []string{
		"sync.Pool is modelled as: Get returns any pooled Store or misses; in the history search the choice is an explicit part of each operation",
		"the request-id counter is excluded from the state key (it only determines the id text; uniqueness and constancy are checked along every path)",
		"routes are registered between requests, never concurrently with them (as in the statement)",
	}})
	os.Exit(code)
}
