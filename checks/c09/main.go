// Command c09 decides C09: config source priority command line > environment > JSON >
// default. Struct types are generated with reflect.StructOf: 9 field kinds x 3 nesting
// positions x 2 tag syntaxes x default {empty, non-zero} x all 16 subsets of sources that
// mention the field x 3 value sets (ordinary, extreme, empty text) x 2 JSON carriers x cli
// spellings, with a second field running through its own source subsets independently.
package main

import (
	"encoding/base64"
	"encoding/json"
	"flag"
	"fmt"
	"math"
	"os"
	"path/filepath"
	"reflect"
	"strconv"
	"strings"
	"time"

	"github.com/whoisnian/glb/config"
	"verif/engine/vcommon"
)

type kindT struct {
	name string
	typ  reflect.Type
	// texts for [valueSet][source] where source: 0 cli 1 env 2 json 3 default
	texts [3][4]string
	parse func(s string) (any, error) // strconv-based, independent of config.Value
	jsonV func(s string) any          // typed value placed in the JSON document
}

// nVsets value sets: 0 ordinary, 1 extreme, 2 empty text (cli, env), and three sets of coinciding
// values - the combinations of two harmless things a "skip what cannot matter" shortcut gets wrong:
// 3 the command line and the environment repeat the text of the tag default (the JSON differs),
// 4 they spell the zero value, 5 the JSON holds the zero value under a non-zero default.
const nVsets = 6

var zeroText = map[string]string{"bool": "false", "int": "0", "int64": "0", "uint": "0", "uint64": "0", "string": "", "float64": "0", "duration": "0s", "bytes": ""}

func (k kindT) text(vset, src int) string {
	switch {
	case vset < 3:
		return k.texts[vset][src]
	case vset == 3 && src < 2:
		return k.texts[0][3]
	case vset == 4 && src < 2, vset == 5 && src == 2:
		return zeroText[k.name]
	}
	return k.texts[0][src]
}

func parseInt(bits int) func(string) (any, error) {
	return func(s string) (any, error) {
		if s == "" {
			return int64(0), nil
		}
		v, err := strconv.ParseInt(s, 0, bits)
		return v, err
	}
}

func parseUint(s string) (any, error) {
	if s == "" {
		return uint64(0), nil
	}
	return strconv.ParseUint(s, 0, 64)
}

var kinds = []kindT{
	{"bool", reflect.TypeOf(false), [3][4]string{{"true", "false", "true", "true"}, {"1", "T", "false", "0"}, {"", "", "true", "true"}},
		func(s string) (any, error) {
			if s == "" {
				return false, nil
			}
			return strconv.ParseBool(s)
		}, func(s string) any { v, _ := strconv.ParseBool(s); return v }},
	{"int", reflect.TypeOf(int(0)), [3][4]string{{"11", "12", "13", "14"}, {"9223372036854775807", "-9223372036854775808", "-1", "0x10"}, {"", "", "13", "14"}},
		parseInt(64), func(s string) any { v, _ := strconv.ParseInt(s, 0, 64); return v }},
	{"int64", reflect.TypeOf(int64(0)), [3][4]string{{"21", "22", "23", "24"}, {"-9223372036854775808", "9223372036854775807", "-7", "0b101"}, {"", "", "23", "24"}},
		parseInt(64), func(s string) any { v, _ := strconv.ParseInt(s, 0, 64); return v }},
	{"uint", reflect.TypeOf(uint(0)), [3][4]string{{"31", "32", "33", "34"}, {"18446744073709551615", "0", "1", "0o17"}, {"", "", "33", "34"}},
		parseUint, func(s string) any { v, _ := strconv.ParseUint(s, 0, 64); return v }},
	{"uint64", reflect.TypeOf(uint64(0)), [3][4]string{{"41", "42", "43", "44"}, {"18446744073709551615", "18446744073709551614", "18446744073709551613", "1"}, {"", "", "43", "44"}},
		parseUint, func(s string) any { v, _ := strconv.ParseUint(s, 0, 64); return v }},
	{"string", reflect.TypeOf(""), [3][4]string{{"cli-${HOME}-text", "env-${PATH}-text", "json-${HOME}-${PATH}-text", "default-$HOME-text"}, {"-x=y z", "a\"b\\c=d=e=", "jé\n", "d=,"}, {"", "", "json-text", "default-text"}},
		func(s string) (any, error) { return s, nil }, func(s string) any { return s }},
	{"float64", reflect.TypeOf(float64(0)), [3][4]string{{"1.5", "2.5", "3.5", "4.5"}, {"1e308", "-0", "-1e-300", "0x1p-2"}, {"", "", "3.5", "4.5"}},
		func(s string) (any, error) {
			if s == "" {
				return float64(0), nil
			}
			return strconv.ParseFloat(s, 64)
		}, func(s string) any { v, _ := strconv.ParseFloat(s, 64); return v }},
	{"duration", reflect.TypeOf(time.Duration(0)), [3][4]string{{"1s", "2s", "3s", "4s"}, {"2562047h47m16.854775807s", "-1ns", "1h1m1s", "1.5h"}, {"", "", "3s", "4s"}},
		func(s string) (any, error) {
			if s == "" {
				return time.Duration(0), nil
			}
			return time.ParseDuration(s)
		}, func(s string) any { v, _ := time.ParseDuration(s); return int64(v) }},
	{"bytes", reflect.TypeOf([]byte(nil)), [3][4]string{{"Y2xp", "ZW52", "anNvbg==", "ZGVm"}, {"/+8=", "AA==", "AAEC", "YQ=="}, {"", "", "anNvbg==", "ZGVm"}},
		func(s string) (any, error) {
			if s == "" {
				return []byte(nil), nil
			}
			return base64.StdEncoding.DecodeString(s)
		}, func(s string) any { return s }},
}

var positions = []string{"top", "nested", "doubly-nested", "nested-acronyms(DB.URL)"}

// envName: literal names, not computed by strutil
var envNames = []string{"CFG_VAL", "CFG_SUB_VAL", "CFG_SUB_DEEP_VAL", "CFG_DB_URL"}

const otherEnv = "CFG_OTHER"

func tag(syntax int, name, def string) reflect.StructTag {
	if syntax == 0 {
		return reflect.StructTag(fmt.Sprintf(`flag:"%s,%s,usage text"`, name, def))
	}
	return reflect.StructTag(fmt.Sprintf(`flag:"|%s|%s|usage, with comma"`, name, def))
}

func quoteTag(s string) string { return s }

func buildType(k kindT, pos, syntax int, def string) reflect.Type {
	val := reflect.StructField{Name: "Val", Type: k.typ, Tag: tag(syntax, "val", def)}
	other := reflect.StructField{Name: "Other", Type: reflect.TypeOf(int(0)), Tag: tag(1-syntax, "other", "77")}
	switch pos {
	case 0:
		return reflect.StructOf([]reflect.StructField{val, other})
	case 1:
		sub := reflect.StructOf([]reflect.StructField{val})
		return reflect.StructOf([]reflect.StructField{{Name: "Sub", Type: sub}, other})
	}
	if pos == 3 {
		// names made of acronyms: the environment name must still be CFG_DB_URL
		url := reflect.StructField{Name: "URL", Type: k.typ, Tag: tag(syntax, "val", def)}
		db := reflect.StructOf([]reflect.StructField{url})
		return reflect.StructOf([]reflect.StructField{{Name: "DB", Type: db}, other})
	}
	deep := reflect.StructOf([]reflect.StructField{val})
	sub := reflect.StructOf([]reflect.StructField{{Name: "Deep", Type: deep}})
	return reflect.StructOf([]reflect.StructField{other, {Name: "Sub", Type: sub}})
}

func fieldOf(v reflect.Value, pos int) reflect.Value {
	switch pos {
	case 0:
		return v.FieldByName("Val")
	case 1:
		return v.FieldByName("Sub").FieldByName("Val")
	case 3:
		return v.FieldByName("DB").FieldByName("URL")
	}
	return v.FieldByName("Sub").FieldByName("Deep").FieldByName("Val")
}

func jsonDoc(pos int, val any, hasVal bool, other any, hasOther bool) []byte {
	m := map[string]any{}
	if hasVal {
		switch pos {
		case 0:
			m["Val"] = val
		case 1:
			m["Sub"] = map[string]any{"Val": val}
		case 3:
			m["DB"] = map[string]any{"URL": val}
		default:
			m["Sub"] = map[string]any{"Deep": map[string]any{"Val": val}}
		}
	}
	if hasOther {
		m["Other"] = other
	}
	data, _ := json.Marshal(m)
	return data
}

func normalize(v any) any {
	switch x := v.(type) {
	case int:
		return int64(x)
	case uint:
		return uint64(x)
	case []byte:
		if len(x) == 0 {
			return []byte(nil)
		}
	}
	return v
}

type stats struct {
	Failed   int // Parse calls that returned an error (not judged)
	Evals    int
	Distinct map[string]bool
	Viols    []vcommon.Violation
}

var tmpDir string

// builtin is an extra command-line token naming a built-in flag; it must not change which
// source wins for any field
var builtin = ""

func runCase(k kindT, pos, syntax, defKind, subset, vset, carrier, spelling, otherSubset int, st *stats) {
	// sources mentioning the field under test: bit0 cli, bit1 env, bit2 json, bit3 default
	def := ""
	if subset&8 != 0 {
		def = k.text(vset, 3)
	}
	if defKind == 0 && subset&8 != 0 {
		// "default" source silent is expressed by an empty tag default; both are covered by subset bit 3
	}
	if syntax == 0 && strings.ContainsAny(def, ",\"") || syntax == 1 && strings.ContainsAny(def, "|\"") {
		return // not expressible in this tag syntax
	}
	typ := buildType(k, pos, syntax, def)
	ptr := reflect.New(typ)
	fs, err := config.NewFlagSet(ptr.Interface())
	if err != nil {
		st.Failed++ // a tag default this implementation does not accept: nothing to judge (see Parse below)
		return
	}
	var argv []string
	cliText, envText, jsonText := k.text(vset, 0), k.text(vset, 1), k.text(vset, 2)
	if subset&1 != 0 {
		switch {
		case k.name == "bool" && spelling == 1:
			argv = append(argv, "-val="+cliText) // a bool takes no separate value token
		case spelling == 0:
			argv = append(argv, "-val="+cliText)
		case spelling == 1:
			argv = append(argv, "-val", cliText)
		default:
			argv = append(argv, "--val="+cliText)
		}
	}
	os.Unsetenv(envNames[0])
	os.Unsetenv(envNames[1])
	os.Unsetenv(envNames[2])
	os.Unsetenv(envNames[3])
	os.Unsetenv(otherEnv)
	os.Unsetenv("CFG_CONFIG_B64")
	if subset&2 != 0 {
		os.Setenv(envNames[pos], envText)
	}
	// second field: its own subset of {cli, env, json} (default always 77)
	otherWant := int64(77)
	if otherSubset&4 != 0 {
		otherWant = 300
	}
	if otherSubset&2 != 0 {
		os.Setenv(otherEnv, "200")
		otherWant = 200
	}
	if otherSubset&1 != 0 {
		argv = append(argv, "-other", "100")
		otherWant = 100
	}
	if carrier == 2 {
		// both carriers: the file named by -config is THE configuration JSON, CFG_CONFIG_B64 must be
		// ignored altogether (here it mentions both fields with decoy values)
		doc := jsonDoc(pos, k.jsonV(jsonText), subset&4 != 0, 300, otherSubset&4 != 0)
		p := filepath.Join(tmpDir, "cfg.json")
		mustWrite(p, doc)
		argv = append([]string{"-config", p}, argv...)
		decoy := jsonDoc(pos, k.jsonV(k.texts[0][3]), true, 999, true)
		os.Setenv("CFG_CONFIG_B64", base64.StdEncoding.EncodeToString(decoy))
	} else if subset&4 != 0 || otherSubset&4 != 0 {
		doc := jsonDoc(pos, k.jsonV(jsonText), subset&4 != 0, 300, otherSubset&4 != 0)
		if carrier == 0 {
			p := filepath.Join(tmpDir, "cfg.json")
			mustWrite(p, doc)
			argv = append([]string{"-config", p}, argv...)
		} else {
			os.Setenv("CFG_CONFIG_B64", base64.StdEncoding.EncodeToString(doc))
		}
	}
	if builtin != "" {
		argv = append([]string{builtin}, argv...)
	}
	argv = append(argv, "tail")
	st.Evals++
	if err := fs.Parse(argv); err != nil {
		// the statement speaks of what holds after a successful Parse; whether Parse succeeds is
		// the grammar's business (C10). One case is the statement's own: an empty textual value
		// means the zero value, so it cannot be an error. Everything else is counted, not judged.
		if vset == 2 && subset&3 != 0 && builtin == "" {
			st.fail(k, pos, syntax, subset, vset, carrier, spelling, otherSubset, fmt.Sprintf("Parse(%q) failed although an empty textual value means the zero value: %v", argv, err))
			return
		}
		st.Failed++
		return
	}
	// expected: highest-priority source that mentions the field
	var want any
	var perr error
	src := "zero value"
	switch {
	case subset&1 != 0:
		want, perr = k.parse(cliText)
		src = "command line " + strconv.Quote(cliText)
	case subset&2 != 0:
		want, perr = k.parse(envText)
		src = "environment " + strconv.Quote(envText)
	case subset&4 != 0:
		want, perr = k.parse(jsonText)
		src = "JSON " + strconv.Quote(jsonText)
	case subset&8 != 0:
		want, perr = k.parse(def)
		src = "tag default " + strconv.Quote(def)
	default:
		want, perr = k.parse("")
	}
	if perr != nil {
		vcommon.Infra("harness value %q does not parse: %v", src, perr)
	}
	got := normalize(fieldOf(ptr.Elem(), pos).Interface())
	want = normalize(want)
	if !reflect.DeepEqual(got, want) && !(isNegZero(got) && isNegZero(want)) {
		st.fail(k, pos, syntax, subset, vset, carrier, spelling, otherSubset, fmt.Sprintf("field holds %v (%T), the highest-priority source mentioning it is the %s = %v; argv %q", got, got, src, want, argv))
		return
	}
	if o := ptr.Elem().FieldByName("Other").Int(); o != otherWant {
		st.fail(k, pos, syntax, subset, vset, carrier, spelling, otherSubset, fmt.Sprintf("second field holds %d, want %d; argv %q", o, otherWant, argv))
		return
	}
	if a := fs.Args(); len(a) != 1 || a[0] != "tail" {
		st.fail(k, pos, syntax, subset, vset, carrier, spelling, otherSubset, fmt.Sprintf("Args()=%q", a))
		return
	}
	st.Distinct[fmt.Sprintf("%s|%d|%d|%v", k.name, subset, otherSubset, got)] = true
}

// runWide: wide but shallow - a configuration with nf fields (sizes around every plausible
// internal capacity), each field given by a different combination of sources
func runWide(nf int, st *stats) {
	var fields []reflect.StructField
	for i := 0; i < nf; i++ {
		fields = append(fields, reflect.StructField{Name: fmt.Sprintf("F%d", i), Type: reflect.TypeOf(int(0)), Tag: tag(i%2, fmt.Sprintf("f%d", i), fmt.Sprint(1000+i))})
	}
	ptr := reflect.New(reflect.StructOf(fields))
	fs, err := config.NewFlagSet(ptr.Interface())
	if err != nil {
		st.Failed++ // not judged: the statement is about successful parses
		return
	}
	os.Unsetenv("CFG_CONFIG_B64")
	doc := map[string]any{}
	var argv []string
	want := make([]int, nf)
	var envSet []string
	for i := 0; i < nf; i++ {
		want[i] = 1000 + i // tag default
		src := i % 8       // bit0 cli, bit1 env, bit2 json
		if i == 0 || i == nf-1 || i == nf/2 {
			src = 7
		}
		if src&4 != 0 {
			doc[fmt.Sprintf("F%d", i)] = 3000 + i
			want[i] = 3000 + i
		}
		if src&2 != 0 {
			e := fmt.Sprintf("CFG_F%d", i)
			os.Setenv(e, fmt.Sprint(2000+i))
			envSet = append(envSet, e)
			want[i] = 2000 + i
		}
		if src&1 != 0 {
			argv = append(argv, fmt.Sprintf("-f%d=%d", i, 4000+i))
			want[i] = 4000 + i
		}
	}
	defer func() {
		for _, e := range envSet {
			os.Unsetenv(e)
		}
	}()
	data, _ := json.Marshal(doc)
	p := filepath.Join(tmpDir, "wide.json")
	mustWrite(p, data)
	argv = append([]string{"-config", p}, argv...)
	st.Evals++
	if err := fs.Parse(argv); err != nil {
		st.Failed++
		return
	}
	for i := 0; i < nf; i++ {
		if got := int(ptr.Elem().Field(i).Int()); got != want[i] {
			if len(st.Viols) < 5 {
				st.Viols = append(st.Viols, vcommon.Violation{Scenario: "wide", Fingerprint: fmt.Sprintf("wide|%d|field%d", nf, i),
					Message: fmt.Sprintf("C09: struct of %d int fields: field F%d holds %d, the highest-priority source mentioning it gives %d (sources cli/env/json bits %03b; cli 4000+i, env 2000+i, json 3000+i, default 1000+i)", nf, i, got, want[i], i%8)})
			}
			return
		}
	}
	st.Distinct[fmt.Sprintf("wide|%d", nf)] = true
}

func mustWrite(p string, data []byte) {
	if err := os.WriteFile(p, data, 0o644); err != nil {
		vcommon.Infra("cannot write the configuration file of a case: %v", err)
	}
}

func isNegZero(v any) bool {
	f, ok := v.(float64)
	return ok && f == 0 && math.Signbit(f)
}

func (st *stats) fail(k kindT, pos, syntax, subset, vset, carrier, spelling, otherSubset int, msg string) {
	if len(st.Viols) < 5 {
		desc := fmt.Sprintf("kind=%s position=%s tag-syntax=%d sources(cli,env,json,default)=%04b value-set=%d json-carrier=%d cli-spelling=%d second-field-sources=%03b", k.name, positions[pos], syntax, subset, vset, carrier, spelling, otherSubset)
		st.Viols = append(st.Viols, vcommon.Violation{Scenario: "priority", Fingerprint: desc, Message: "C09: " + msg + "\n  case: " + desc, Witness: map[string]any{"case": desc}})
	}
}

func main() {
	flag.Parse()
	otherSubsets := []int{0, 1, 6, 7}
	if vcommon.Thorough() {
		otherSubsets = []int{0, 1, 2, 3, 4, 5, 6, 7}
	}
	if i, n, worker := vcommon.ShardSpec(); worker {
		var err error
		if tmpDir, err = vcommon.TempDir("", "c09"); err != nil {
			vcommon.Infra("%v", err)
		}
		defer os.RemoveAll(tmpDir)
		st := &stats{Distinct: map[string]bool{}}
		c := 0
		for _, k := range kinds {
			for pos := 0; pos < 4; pos++ {
				for syntax := 0; syntax < 2; syntax++ {
					for subset := 0; subset < 16; subset++ {
						for vset := 0; vset < nVsets; vset++ {
							for carrier := 0; carrier < 3; carrier++ {
								for spelling := 0; spelling < 3; spelling++ {
									for _, os2 := range otherSubsets {
										c++
										if c%n == i {
											runCase(k, pos, syntax, 0, subset, vset, carrier, spelling, os2, st)
											if vset == 0 && spelling == 0 && carrier < 2 {
												for _, b := range []string{"-help", "--help=true", "-help=false"} {
													builtin = b
													runCase(k, pos, syntax, 0, subset, vset, carrier, spelling, os2, st)
												}
												builtin = ""
											}
										}
									}
								}
							}
						}
					}
				}
			}
		}
		if i == 0 {
			for _, nf := range []int{3, 30, 62, 63, 64, 65, 70, 130, 300} {
				runWide(nf, st)
			}
		}
		json.NewEncoder(os.Stdout).Encode(st)
		return
	}
	np := vcommon.NProc()
	var jobs [][]string
	for k := 0; k < np; k++ {
		jobs = append(jobs, []string{"-shard", fmt.Sprintf("%d/%d", k, np)})
	}
	total := &stats{Distinct: map[string]bool{}}
	for _, out := range vcommon.RunJobs(jobs) {
		var st stats
		if err := json.Unmarshal(out, &st); err != nil {
			vcommon.Infra("bad worker output: %v\n%s", err, out)
		}
		total.Evals += st.Evals
		total.Failed += st.Failed
		for k := range st.Distinct {
			total.Distinct[k] = true
		}
		total.Viols = append(total.Viols, st.Viols...)
	}
	if len(total.Viols) > 5 {
		total.Viols = total.Viols[:5]
	}
	fmt.Printf("%d configurations parsed, %d distinct (kind, sources, value) outcomes\n", total.Evals, len(total.Distinct))
	if total.Failed > 0 {
		fmt.Printf("WARNING: %d of %d Parse calls returned an error and were not judged (the statement is about successful parses)\n", total.Failed, total.Evals)
	}
	code, n := vcommon.Report("C09", total.Viols)
	vcommon.WriteEvidence(&vcommon.Evidence{PropertyID: "C09", Level: "exploration", Violations: n,
		Coverage: map[string]any{
			"evaluations": total.Evals, "distinct_nontrivial": len(total.Distinct),
			"rule":       "struct types generated with reflect.StructOf: 9 kinds x 4 nesting positions (incl. acronym names DB.URL -> CFG_DB_URL) x 2 tag syntaxes x all 16 subsets of {cli, env, JSON, tag default} mentioning the field x 6 value sets (ordinary / extreme / empty text for cli and env / cli and env repeating the tag default's text / cli and env spelling the zero value / JSON holding the zero value under a non-zero default) x 3 JSON carrier modes (-config file, CFG_CONFIG_B64, both present: the file wins and the variable is ignored) x 3 cli spellings x the second field's own source subsets; after Parse the field must equal the strconv-parsed value of the highest-priority mentioning source; distinct_nontrivial = distinct (kind, subsets, resulting value)",
			"exhaustive": true, "second_field_subsets": otherSubsets, "parse_errors_not_judged": total.Failed,
			"samples": []any{"kind=duration position=doubly-nested tag-syntax=1 sources=0110 (env, json) value-set=1 carrier=CFG_CONFIG_B64 -> -1ns from CFG_SUB_DEEP_VAL", "kind=bytes position=top sources=1001 value-set=2 (empty cli text) -> nil"},
		},
		Assumptions: []string{"environment variables and the temporary config file are created and removed per case; expected environment names are literal strings in the harness", "JSON null and wrongly typed JSON do not 'mention' a field and are not generated", "tag defaults that the tag syntax cannot express (containing its separator or a quote) are skipped"}})
	os.Exit(code)
}
