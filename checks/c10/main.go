// Command c10 decides C10: the command-line grammar. Every argument vector of length <= 4
// (quick) / <= 5 (thorough) over 27 tokens (well-formed flags, near misses, unknown names,
// plain words, the empty token, arbitrary bytes) is parsed by the real FlagSet and by a
// reference parser written from the documented grammar; errors, field values, Args() and
// ShowUsage() must agree, and nothing may panic.
package main

import (
	"encoding/base64"
	"encoding/json"
	"flag"
	"fmt"
	"os"
	"reflect"
	"strconv"
	"strings"
	"time"

	"github.com/whoisnian/glb/config"
	"verif/engine/vcommon"
)

type Conf struct {
	B   bool          `flag:"b,false,a bool"`
	N   int           `flag:"n,3,an int"`
	S   string        `flag:"s,dflt,a string"`
	D   time.Duration `flag:"d,1m,a duration"`
	U   uint64        `flag:"u64,7,an unsigned"`
	V   int           `flag:"verbosity,0,the longest flag name of the set"`
	Sub struct {
		X int64 `flag:"|sub|9|a nested int"`
	}
}

var tokens = []string{
	"-b", "-b=false", "-b=", "-n=5", "--n=7", "-n", "-s", "-s=a=b", "-s=-x", "--help", "-d=2s", "-sub=4",
	"-u64=18446744073709551615", "-u64=-1", "--verbosity=2", "-verbosity",
	"-", "--", "---s", "-=", "-x=", "--=v", "-n=x", "-b=maybe",
	"-u", "-u=1",
	"5", "x", "true", "", "\xff-",
	"-n=99999999999999999999", "-u64=18446744073709551616", // syntactically numbers, out of range: unparsable effective values
	"-n=3", "-s=dflt", // values whose text equals the tag default
}

// worlds: what the other configuration sources say while the command line is parsed. The grammar
// decides which flags the command line assigns; an assignment is observable only against what the
// field would hold without it, so every vector is judged three times: nothing else speaks (the
// field would hold its default), a CFG_CONFIG_B64 document gives every field another value, the
// environment gives every field another value. (Priority command line > environment > JSON.)
var world int

var worldBase = []Conf{
	{N: 3, S: "dflt", D: time.Minute, U: 7, Sub: struct {
		X int64 `flag:"|sub|9|a nested int"`
	}{9}},
	{B: true, N: 41, S: "json", D: 5 * time.Second, U: 42, V: 43, Sub: struct {
		X int64 `flag:"|sub|9|a nested int"`
	}{44}},
	{B: true, N: 51, S: "env", D: 6 * time.Second, U: 52, V: 53, Sub: struct {
		X int64 `flag:"|sub|9|a nested int"`
	}{54}},
}

func setWorld(w int) {
	world = w
	for _, k := range []string{"CFG_CONFIG_B64", "CFG_B", "CFG_N", "CFG_S", "CFG_D", "CFG_U", "CFG_V", "CFG_SUB_X"} {
		os.Unsetenv(k)
	}
	switch w {
	case 1:
		os.Setenv("CFG_CONFIG_B64", base64.StdEncoding.EncodeToString([]byte(`{"B":true,"N":41,"S":"json","D":5000000000,"U":42,"V":43,"Sub":{"X":44}}`)))
	case 2:
		for k, v := range map[string]string{"CFG_B": "true", "CFG_N": "51", "CFG_S": "env", "CFG_D": "6s", "CFG_U": "52", "CFG_V": "53", "CFG_SUB_X": "54"} {
			os.Setenv(k, v)
		}
	}
}

// ---------------------------------------------------------------- reference parser

type refResult struct {
	err  bool
	conf Conf
	help bool
	rest []string
}

var flagKinds = map[string]string{"b": "bool", "n": "int", "s": "string", "d": "duration", "sub": "int64", "u64": "uint64", "verbosity": "int", "help": "bool", "config": "string"}

func reference(argv []string) refResult {
	var r refResult
	r.conf = worldBase[world]
	assigned := map[string]string{}
	i := 0
	for i < len(argv) {
		a := argv[i]
		if len(a) < 2 || a[0] != '-' {
			break
		}
		if a == "--" {
			i++
			break
		}
		body := a[1:]
		if body[0] == '-' {
			body = body[1:]
		}
		if body == "" || body[0] == '-' || body[0] == '=' {
			r.err = true
			return r
		}
		name, val, hasVal := body, "", false
		if k := strings.IndexByte(body[1:], '='); k >= 0 {
			name, val, hasVal = body[:k+1], body[k+2:], true
		}
		kind, ok := flagKinds[name]
		if !ok {
			r.err = true
			return r
		}
		i++
		if !hasVal {
			if kind == "bool" {
				val = "true"
			} else if i < len(argv) {
				val = argv[i]
				i++
			} else {
				r.err = true
				return r
			}
		}
		assigned[name] = val
	}
	r.rest = argv[i:]
	for name, val := range assigned {
		var err error
		switch name {
		case "b", "help":
			v := false
			if val != "" {
				v, err = strconv.ParseBool(val)
			}
			if name == "b" {
				r.conf.B = v
			} else {
				r.help = v
			}
		case "n":
			var v int64
			if val != "" {
				v, err = strconv.ParseInt(val, 0, 64)
			}
			r.conf.N = int(v)
		case "u64":
			var v uint64
			if val != "" {
				v, err = strconv.ParseUint(val, 0, 64)
			}
			r.conf.U = v
		case "verbosity":
			var v int64
			if val != "" {
				v, err = strconv.ParseInt(val, 0, 64)
			}
			r.conf.V = int(v)
		case "sub":
			var v int64
			if val != "" {
				v, err = strconv.ParseInt(val, 0, 64)
			}
			r.conf.Sub.X = v
		case "s":
			r.conf.S = val
		case "d":
			var v time.Duration
			if val != "" {
				v, err = time.ParseDuration(val)
			}
			r.conf.D = v
		case "config":
			err = fmt.Errorf("config files are not part of this alphabet")
		}
		if err != nil {
			r.err = true
			return r
		}
	}
	return r
}

// ---------------------------------------------------------------- real parser

func real(argv []string) (res refResult, panicked any) {
	defer func() {
		if p := recover(); p != nil {
			panicked = p
		}
	}()
	args := append([]string{}, argv...)
	fs, err := config.NewFlagSet(&res.conf)
	if err != nil {
		panic("NewFlagSet: " + err.Error())
	}
	if err := fs.Parse(args); err != nil {
		res.err = true
		return
	}
	res.help = fs.ShowUsage()
	res.rest = fs.Args()
	return
}

var worldNames = []string{"", " [CFG_CONFIG_B64 gives every field another value]", " [the environment gives every field another value]"}

type stats struct {
	Evals, Errors, Accepted int
	Distinct                map[string]bool
	Viols                   []vcommon.Violation
}

func judge(argv []string, st *stats) {
	st.Evals++
	want := reference(argv)
	got, p := real(argv)
	fail := func(msg string) {
		if len(st.Viols) < 5 {
			st.Viols = append(st.Viols, vcommon.Violation{Scenario: "argv", Fingerprint: fmt.Sprintf("%q%s", argv, worldNames[world]),
				Message: fmt.Sprintf("C10: Parse(%q)%s: %s", argv, worldNames[world], msg), Witness: map[string]any{"argv": argv, "world": world},
				ReplayGo: fmt.Sprintf("// cfg as in checks/c10: fields b,n,s,d,u64,verbosity,sub\nfs, _ := config.NewFlagSet(&cfg)\nerr := fs.Parse(%#v)\n", argv)})
		}
	}
	if p != nil {
		fail(fmt.Sprintf("panicked: %v", p))
		return
	}
	if want.err != got.err {
		if want.err {
			fail("returned nil, the documented grammar makes this an error")
		} else {
			fail("returned an error, the documented grammar accepts it")
		}
		return
	}
	if want.err {
		st.Errors++
		return
	}
	st.Accepted++
	if !reflect.DeepEqual(want.conf, got.conf) {
		fail(fmt.Sprintf("fields are %+v, want %+v", got.conf, want.conf))
		return
	}
	if want.help != got.help {
		fail(fmt.Sprintf("ShowUsage()=%v, want %v", got.help, want.help))
		return
	}
	if len(want.rest) != len(got.rest) {
		fail(fmt.Sprintf("Args()=%q, want %q", got.rest, want.rest))
		return
	}
	for i := range want.rest {
		if want.rest[i] != got.rest[i] {
			fail(fmt.Sprintf("Args()=%q, want %q", got.rest, want.rest))
			return
		}
	}
	st.Distinct[fmt.Sprintf("%d|%+v|%v|%d", world, got.conf, got.help, len(got.rest))] = true
}

func main() {
	flag.Parse()
	for _, e := range os.Environ() {
		if strings.HasPrefix(e, "CFG_") {
			os.Unsetenv(strings.SplitN(e, "=", 2)[0])
		}
	}
	maxLen := 4
	extraWorldLen := 1 // quick: the worlds where another source speaks too run the full length; thorough one token less
	if vcommon.Thorough() {
		maxLen = 5
		extraWorldLen = 0
	}
	if i, n, worker := vcommon.ShardSpec(); worker {
		st := &stats{Distinct: map[string]bool{}}
		k := 0
		var rec func(prefix []string, l int)
		rec = func(prefix []string, l int) {
			if l == 0 {
				k++
				if k%n == i {
					for w := range worldBase {
						if w > 0 && len(prefix) > maxLen-1+extraWorldLen {
							break
						}
						setWorld(w)
						judge(prefix, st)
					}
				}
				return
			}
			for _, t := range tokens {
				rec(append(prefix, t), l-1)
			}
		}
		for l := 0; l <= maxLen; l++ {
			rec(nil, l)
		}
		json.NewEncoder(os.Stdout).Encode(st)
		return
	}
	np := vcommon.NProc()
	var jobs [][]string
	for k := 0; k < np; k++ {
		jobs = append(jobs, []string{"-shard", fmt.Sprintf("%d/%d", k, np)})
	}
	total := &stats{Distinct: map[string]bool{}}
	for _, out := range vcommon.RunJobs(jobs) {
		var st stats
		if err := json.Unmarshal(out, &st); err != nil {
			vcommon.Infra("bad worker output: %v", err)
		}
		total.Evals += st.Evals
		total.Errors += st.Errors
		total.Accepted += st.Accepted
		for k := range st.Distinct {
			total.Distinct[k] = true
		}
		total.Viols = append(total.Viols, st.Viols...)
	}
	// shortest counterexample first
	for i := range total.Viols {
		for j := i + 1; j < len(total.Viols); j++ {
			if len(total.Viols[j].Fingerprint) < len(total.Viols[i].Fingerprint) {
				total.Viols[i], total.Viols[j] = total.Viols[j], total.Viols[i]
			}
		}
	}
	if len(total.Viols) > 5 {
		total.Viols = total.Viols[:5]
	}
	fmt.Printf("%d argument vectors judged: %d accepted, %d rejected, %d distinct accepted outcomes\n", total.Evals, total.Accepted, total.Errors, len(total.Distinct))
	code, n := vcommon.Report("C10", total.Viols)
	vcommon.WriteEvidence(&vcommon.Evidence{PropertyID: "C10", Level: "exploration", Violations: n,
		Coverage: map[string]any{
			"evaluations": total.Evals, "distinct_nontrivial": len(total.Distinct),
			"rule":       fmt.Sprintf("every argument vector of length <= %d over %d tokens, each in three worlds (nothing else speaks / a CFG_CONFIG_B64 document gives every field another value / the environment does; in the thorough tier the two latter up to one token less), parsed by the real FlagSet (bool, int, string, duration, nested int64 fields) and by a reference parser of the documented grammar; distinct_nontrivial = distinct accepted outcomes (field values, ShowUsage, number of trailing args)", maxLen, len(tokens)),
			"exhaustive": true, "accepted": total.Accepted, "rejected": total.Errors, "tokens": fmt.Sprintf("%q", tokens),
			"samples": []any{[]string{"-b", "x", "-n=5"}, []string{"-s", "-n=5", "--", "-b"}, []string{"-n=x", "-n=5"}, []string{"---s"}},
		},
		Assumptions: []string{"-config <file> is not in the alphabet (C09 covers the file carrier); the other sources speak only in the second and third world, with valid values", "an unparsable value is an error only if it is the effective (last) one for its flag, as the statement says"}})
	os.Exit(code)
}
