// Command c11 decides C11: IPv4Filter answers membership exactly as the set of CIDRs
// added and not removed. Explicit-state search over the real filter: (variant small)
// rebuilt with list size 3, BFS to a fixpoint = every reachable state of the alphabet;
// (variant real) the real list size, prefilled to just below / at the switch with holes,
// then all operation sequences to a depth.
package main

import (
	"encoding/json"
	"errors"
	"flag"
	"fmt"
	"net"
	"os"
	"sort"
	"strings"
	"sync"

	"github.com/whoisnian/glb/util/netutil"
	"verif/engine/vcommon"
	"verif/engine/vstate"
)

var prevPart = flag.String("prev", "", "partial result of the other variant")

func cidr(s string) *net.IPNet {
	ip, n, err := net.ParseCIDR(s)
	if err != nil {
		panic(err)
	}
	// keep the address as written (possibly non-canonical), 4-byte form
	n.IP = ip.To4()
	return n
}

// sharedIP is a caller-owned buffer reused for consecutive calls (the filter must not retain it)
type opT struct {
	shared  bool // pass the address through sharedIP
	name    string
	arg     *net.IPNet
	add     bool
	invalid bool   // must be rejected
	maybe   bool   // may be accepted or rejected (16-byte IPv4 address with 4-byte mask)
	key     string // model key "masked/ones"
}

func key(n *net.IPNet) string {
	ones, _ := n.Mask.Size()
	ip := n.IP.To4()
	m := net.CIDRMask(ones, 32)
	return fmt.Sprintf("%s/%d", ip.Mask(m).String(), ones)
}

// 0.0.0.0/1 and 0.1.2.3/8: live ranges whose masked network address is zero (they must not be mistaken for removed slots)
var ranges = []string{"0.0.0.0/0", "128.0.0.0/1", "0.0.0.0/1", "10.0.0.0/8", "10.1.2.3/8", "10.128.0.0/9", "10.0.0.1/32", "255.255.255.255/32", "0.1.2.3/8"}

func alphabet() []opT {
	if !vcommon.Thorough() {
		ranges = ranges[:len(ranges)-1] // quick: 8 ranges (0.1.2.3/8 only in thorough)
	}
	var ops []opT
	for _, add := range []bool{true, false} {
		verb := "Remove"
		if add {
			verb = "Add"
		}
		for _, r := range ranges {
			n := cidr(r)
			ops = append(ops, opT{name: verb + "(" + r + ")", arg: n, add: add, key: key(n)})
		}
		for _, r := range []string{"10.0.0.1/32", "255.255.255.255/32"} { // same prefix length, consecutive calls through one buffer
			n := cidr(r)
			ops = append(ops, opT{name: verb + "(" + r + " via a reused buffer)", arg: n, add: add, key: key(n), shared: true})
		}
		_, v6, _ := net.ParseCIDR("2001:db8::/32")
		ops = append(ops, opT{name: verb + "(2001:db8::/32)", arg: v6, add: add, invalid: true})
		ops = append(ops, opT{name: verb + "(10.0.0.0 mask 255.0.255.0)", arg: &net.IPNet{IP: net.IP{10, 0, 0, 0}, Mask: net.IPMask{255, 0, 255, 0}}, add: add, invalid: true})
		for _, m := range []net.IPMask{{0, 0, 0, 255}, {0, 255, 255, 255}, {127, 255, 255, 255}, {255, 255, 255, 253}} {
			ops = append(ops, opT{name: verb + "(10.0.0.0 mask " + net.IP(m).String() + ")", arg: &net.IPNet{IP: net.IP{10, 0, 0, 0}, Mask: m}, add: add, invalid: true})
		}
		ops = append(ops, opT{name: verb + "(10.0.0.0 nil mask)", arg: &net.IPNet{IP: net.IP{10, 0, 0, 0}}, add: add, invalid: true})
		ops = append(ops, opT{name: verb + "(10.0.0.0/8 mask 16 bytes)", arg: &net.IPNet{IP: net.IP{10, 0, 0, 0}, Mask: net.CIDRMask(104, 128)}, add: add, maybe: true, key: "10.0.0.0/8"})
		m16 := &net.IPNet{IP: net.ParseIP("172.16.0.0"), Mask: net.CIDRMask(12, 32)}
		ops = append(ops, opT{name: verb + "(172.16.0.0/12 as 16-byte IP)", arg: m16, add: add, maybe: true, key: "172.16.0.0/12"})
	}
	return ops
}

type sys struct {
	f   *netutil.IPv4Filter
	ref map[string]bool
	buf net.IP // the caller's reused buffer (per system, so that parallel searches do not share it)
}

var parsedMu sync.RWMutex
var parsed = map[string]*net.IPNet{}

func parsedCIDR(k string) *net.IPNet {
	parsedMu.RLock()
	n := parsed[k]
	parsedMu.RUnlock()
	if n == nil {
		_, n, _ = net.ParseCIDR(k)
		parsedMu.Lock()
		parsed[k] = n
		parsedMu.Unlock()
	}
	return n
}

func (s *sys) refContains(ip net.IP) bool {
	for k := range s.ref {
		if parsedCIDR(k).Contains(ip) {
			return true
		}
	}
	return false
}

func refKey(s *sys) string {
	var ks []string
	for k := range s.ref {
		ks = append(ks, k)
	}
	sort.Strings(ks)
	return strings.Join(ks, ",")
}

func refShow(s *sys) string {
	k := refKey(s)
	if len(k) > 300 {
		return fmt.Sprintf("%s,…(%d ranges)", k[:200], len(s.ref))
	}
	return k
}

var probes []net.IP

func init() {
	seen := map[string]bool{}
	for _, r := range append(append([]string{}, ranges...), "172.16.0.0/12", "100.64.0.7/32") {
		n := cidr(r)
		m := net.CIDRMask(func() int { o, _ := n.Mask.Size(); return o }(), 32)
		first := n.IP.To4().Mask(m)
		last := make(net.IP, 4)
		for i := range last {
			last[i] = first[i] | ^m[i]
		}
		for _, p := range []net.IP{first, last, step(first, -1), step(last, 1), n.IP.To4()} {
			if !seen[p.String()] {
				seen[p.String()] = true
				probes = append(probes, p)
			}
		}
	}
}

func step(ip net.IP, d int) net.IP {
	v := uint32(ip[0])<<24 | uint32(ip[1])<<16 | uint32(ip[2])<<8 | uint32(ip[3])
	v += uint32(int32(d))
	return net.IP{byte(v >> 24), byte(v >> 16), byte(v >> 8), byte(v)}
}

func apply(ops []opT) func(s *sys, op int) string {
	return func(s *sys, i int) string {
		o := ops[i]
		var err error
		arg := o.arg
		// the lookup made last before an update is one for an address of the range being updated
		// (whatever a filter remembers about its latest lookups must not outlive the update)
		if !o.invalid && !o.maybe && len(o.arg.Mask) == 4 && len(o.arg.IP) == 4 {
			first := o.arg.IP.Mask(o.arg.Mask)
			last := make(net.IP, 4)
			for k := range last {
				last[k] = first[k] | ^o.arg.Mask[k]
			}
			for _, p := range []net.IP{last, first} {
				if got, want := s.f.Contains(p), s.refContains(p); got != want {
					return fmt.Sprintf("C11: before %s: Contains(%s)=%v but the set {%s} says %v", o.name, p, got, refShow(s), want)
				}
			}
		}
		if o.shared {
			copy(s.buf, o.arg.IP.To4())
			arg = &net.IPNet{IP: s.buf, Mask: o.arg.Mask}
		}
		if o.add {
			err = s.f.Add(arg)
		} else {
			err = s.f.Remove(arg)
		}
		if o.shared {
			// the caller goes on using its buffer: a filter that retained it now sees other bytes
			// (and its canonical dump differs from the one after the same call with a private slice)
			copy(s.buf, []byte{0xee, 0xee, 0xee, 0xee})
		}
		switch {
		case o.invalid || (o.maybe && err != nil):
			if !errors.Is(err, netutil.ErrInvalidIPv4CIDR) {
				return fmt.Sprintf("C11: %s returned %v, want ErrInvalidIPv4CIDR", o.name, err)
			}
			// "changes nothing" is judged by what the filter answers from here on: the state reached
			// is a state of the search like any other, compared with the unchanged reference set
		default:
			if err != nil {
				return fmt.Sprintf("C11: %s returned %v", o.name, err)
			}
			if o.add {
				s.ref[o.key] = true
			} else {
				delete(s.ref, o.key)
			}
		}
		return ""
	}
}

var invalidOps []opT

func check(s *sys) string {
	// arguments that are not IPv4 CIDRs must be rejected in every state and change nothing
	if len(invalidOps) > 0 {
		for _, o := range invalidOps {
			var err error
			if o.add {
				err = s.f.Add(o.arg)
			} else {
				err = s.f.Remove(o.arg)
			}
			if !errors.Is(err, netutil.ErrInvalidIPv4CIDR) {
				return fmt.Sprintf("C11: %s returned %v, want ErrInvalidIPv4CIDR", o.name, err)
			}
		}
		// that they changed nothing is judged by the membership answers that follow
	}
	for _, p := range probes {
		want := s.refContains(p)
		if got := s.f.Contains(p); got != want {
			return fmt.Sprintf("C11: Contains(%s as 4-byte address)=%v but the set {%s} says %v", p, got, refShow(s), want)
		}
		if v6 := append(net.IP{0x20, 0x01, 0x0d, 0xb8, 0, 0, 0, 0, 0, 0, 0, 0}, p.To4()...); !s.ref["0.0.0.0/0"] && s.f.Contains(v6) {
			return fmt.Sprintf("C11: Contains(%s)=true: a genuine IPv6 address, which no IPv4 range of the set {%s} covers", v6, refShow(s))
		}
		if got := s.f.Contains(p.To16()); got != want {
			return fmt.Sprintf("C11: Contains(%s as 16-byte IPv4 address)=%v but the set {%s} says %v", p, got, refShow(s), want)
		}
	}
	return ""
}

type part struct {
	Results []*vstate.Result
	Viols   []vcommon.Violation
	Evals   int
}

func filler(i int) *net.IPNet {
	return &net.IPNet{IP: net.IP{100, 64, byte(i >> 8), byte(i)}, Mask: net.CIDRMask(32, 32)}
}

func main() {
	flag.Parse()
	ops := alphabet()
	{
		var keep []opT
		for _, o := range ops {
			if o.invalid {
				invalidOps = append(invalidOps, o)
			} else {
				keep = append(keep, o)
			}
		}
		ops = keep
	}
	var opName func(i int) string
	opName = func(i int) string { return ops[i].name }
	var p part
	var run func(name string, newf func() *sys, depth int)
	run = func(name string, newf func() *sys, depth int) {
		r := vstate.Explore(vstate.Config[*sys]{Name: name, NOps: len(ops), OpName: opName, New: newf, Apply: apply(ops),
			Canon: func(s *sys) string { return vstate.Dump(s.f) + "|" + refKey(s) }, Check: check, MaxDepth: depth, Deadline: vcommon.Deadline(), Workers: vcommon.NProc()})
		p.Results = append(p.Results, r)
		fmt.Println(r)
		for _, f := range r.Failures {
			p.Viols = append(p.Viols, vcommon.Violation{Scenario: name, Fingerprint: firstLine(f.Msg),
				Message: f.Msg + "\nhistory: " + strings.Join(f.Ops, " ; "), Witness: map[string]any{"ops": f.Ops, "variant": *vcommon.Variant, "scenario": name},
				ReplayGo: replayGo(ops, f.Path, f.Msg)})
		}
	}
	switch *vcommon.Variant {
	case "small":
		run("listSize3-fixpoint", func() *sys { return &sys{f: netutil.NewIPv4Filter(), ref: map[string]bool{}, buf: make(net.IP, 4)} }, 0)
	case "real":
		var plain []opT
		for _, o := range ops {
			if !o.invalid && !o.maybe && !o.shared {
				plain = append(plain, o)
			}
		}
		ops = plain
		opName = func(i int) string { return ops[i].name }
		depth := 3
		if vcommon.Thorough() {
			depth = 4
		}
		var wg sync.WaitGroup
		var mu sync.Mutex
		runOrig := run
		run = func(name string, newf func() *sys, depth int) {
			wg.Add(1)
			go func() {
				defer wg.Done()
				r := vstate.Explore(vstate.Config[*sys]{Name: name, NOps: len(ops), OpName: opName, New: newf, Apply: apply(ops),
					Canon: func(s *sys) string { return vstate.Dump(s.f) + "|" + refKey(s) }, Check: check, MaxDepth: depth, Deadline: vcommon.Deadline()})
				mu.Lock()
				defer mu.Unlock()
				p.Results = append(p.Results, r)
				for _, f := range r.Failures {
					p.Viols = append(p.Viols, vcommon.Violation{Scenario: name, Fingerprint: firstLine(f.Msg),
						Message: f.Msg + "\nhistory: " + strings.Join(f.Ops, " ; "), Witness: map[string]any{"ops": f.Ops, "variant": *vcommon.Variant, "scenario": name}})
				}
			}()
		}
		_ = runOrig
		defer func() {}()
		for _, idx := range []int{253, 254, 255, 256} {
			for _, hole := range []string{"none", "first", "middle", "last"} {
				idx, hole := idx, hole
				run(fmt.Sprintf("listSize256-prefill%d-hole-%s", idx, hole), func() *sys {
					s := &sys{f: netutil.NewIPv4Filter(), ref: map[string]bool{}, buf: make(net.IP, 4)}
					for i := 0; i < idx; i++ {
						s.f.Add(filler(i))
						s.ref[key(filler(i))] = true
					}
					h := -1
					switch hole {
					case "first":
						h = 0
					case "middle":
						h = idx / 2
					case "last":
						h = idx - 1
					}
					if h >= 0 {
						s.f.Remove(filler(h))
						delete(s.ref, key(filler(h)))
					}
					return s
				}, depth)
			}
		}
		wg.Wait()
		sort.Slice(p.Results, func(i, j int) bool { return p.Results[i].Name < p.Results[j].Name })
		for _, r := range p.Results {
			fmt.Println(r)
		}
	default:
		vcommon.Infra("unknown variant %q", *vcommon.Variant)
	}
	if *vcommon.Part != "" {
		data, _ := json.Marshal(p)
		os.WriteFile(*vcommon.Part, data, 0o644)
		return
	}
	if *prevPart != "" {
		var q part
		data, err := os.ReadFile(*prevPart)
		if err != nil || json.Unmarshal(data, &q) != nil {
			vcommon.Infra("cannot read partial result %s", *prevPart)
		}
		p.Results = append(q.Results, p.Results...)
		p.Viols = append(q.Viols, p.Viols...)
	}
	states, trans := 0, 0
	complete, fix := true, false
	var samples []any
	for _, r := range p.Results {
		states += r.States
		trans += r.Transitions
		complete = complete && r.Complete
		if r.Name == "listSize3-fixpoint" {
			fix = r.Fixpoint
		}
		if len(samples) < 4 && len(r.Sample) > 0 {
			samples = append(samples, map[string]any{"search": r.Name, "longest_new_state_path": r.Sample})
		}
	}
	code, n := vcommon.Report("C11", p.Viols)
	vcommon.WriteEvidence(&vcommon.Evidence{PropertyID: "C11", Level: "model_checking", Violations: n,
		Coverage: map[string]any{
			"states": states, "transitions": trans, "traces_validated_against_impl": trans,
			"evaluations": trans * len(probes) * 2, "distinct_nontrivial": states,
			"rule":       "explicit-state BFS over the real IPv4Filter: every transition is a real Add/Remove call, every state is checked on " + fmt.Sprint(len(probes)) + " boundary probes in 4-byte and 16-byte form against a set-of-prefixes model; states are distinct canonical dumps of the filter plus the model set",
			"exhaustive": complete && fix, "fixpoint_reached_listSize3": fix, "searches": p.Results, "samples": samples,
			"alphabet": func() []string {
				var n []string
				for _, o := range ops {
					n = append(n, o.name)
				}
				return n
			}(),
		},
		Assumptions: []string{"variant small rebuilds netutil with listSize=3 (constant override) so the whole reachable state space is finite and small", "probe addresses are the first/last address of every range in the alphabet and their outside neighbours"}})
	os.Exit(code)
}

func firstLine(s string) string {
	if i := strings.IndexByte(s, '\n'); i >= 0 {
		return s[:i]
	}
	return s
}

// replayGo renders the failing history as a plain Go test against the uninstrumented package
// (with the real list size the migration needs 257 ranges, so a history found with list size 3
// documents the sequence rather than reproducing it verbatim).
func replayGo(ops []opT, path []int, msg string) string {
	var b strings.Builder
	b.WriteString("package netutil_test\n\nimport (\n\t\"net\"\n\t\"testing\"\n\n\t\"github.com/whoisnian/glb/util/netutil\"\n)\n\n")
	b.WriteString("func TestReplayC11(t *testing.T) {\n\tf := netutil.NewIPv4Filter()\n\tbuf := make(net.IP, 4) // a caller-owned buffer reused between calls\n\t_ = buf\n")
	for _, i := range path {
		if i < 0 || i >= len(ops) {
			continue
		}
		o := ops[i]
		verb := "Remove"
		if o.add {
			verb = "Add"
		}
		ones, bits := o.arg.Mask.Size()
		switch {
		case o.shared:
			fmt.Fprintf(&b, "\tcopy(buf, net.IP{%d, %d, %d, %d})\n\tt.Log(f.%s(&net.IPNet{IP: buf, Mask: net.CIDRMask(%d, %d)}))\n\tcopy(buf, []byte{0xee, 0xee, 0xee, 0xee})\n", o.arg.IP[0], o.arg.IP[1], o.arg.IP[2], o.arg.IP[3], verb, ones, bits)
		case len(o.arg.IP) == 4 && bits == 32:
			fmt.Fprintf(&b, "\tt.Log(f.%s(&net.IPNet{IP: net.IP{%d, %d, %d, %d}, Mask: net.CIDRMask(%d, 32)})) // %s\n", verb, o.arg.IP[0], o.arg.IP[1], o.arg.IP[2], o.arg.IP[3], ones, o.name)
		default:
			fmt.Fprintf(&b, "\t// %s\n", o.name)
		}
	}
	fmt.Fprintf(&b, "\t// expected by the set-of-prefixes model, observed otherwise:\n\t// %s\n", strings.ReplaceAll(firstLine(msg), "\n", " "))
	b.WriteString("\tfor _, p := range []string{\"0.0.0.0\", \"10.0.0.0\", \"10.0.0.1\", \"10.255.255.255\", \"127.255.255.255\", \"128.0.0.0\", \"255.255.255.255\"} {\n\t\tt.Logf(\"Contains(%s)=%v\", p, f.Contains(net.ParseIP(p)))\n\t}\n}\n")
	return b.String()
}
