// Command c12 decides C12: IPv4Filter under concurrent writers and readers. The
// instrumented netutil package is rebuilt with a small list size so that the
// list -> maps migration happens while readers are running; all interleavings at
// RWMutex and atomic operations are executed.
package main

import (
	"fmt"
	"net"
	"sort"
	"strings"

	"github.com/whoisnian/glb/util/netutil"
	"verif/engine/sdrive"
	"verif/engine/shim/vsched"
	"verif/engine/shim/vsync"
	"verif/engine/vcommon"
)

func cidr(s string) *net.IPNet {
	_, n, err := net.ParseCIDR(s)
	if err != nil {
		panic(err)
	}
	return n
}

func ip4(s string) net.IP { return net.ParseIP(s).To4() }

type wop struct {
	add bool
	r   string
}

type lookup struct {
	addr     string
	inv, ret int
	got      bool
}

type span struct{ callT, retT int }

type spec struct {
	pre     []string // present before the threads start, never removed
	writers [][]wop
	readers [][]string
	// callTicks: every writer operation gets an instant of its own for its call (otherwise the call
	// is stamped with the instant the previous operation returned, which is sound but leaves the
	// "present throughout" window of a range its owner removes later empty)
	callTicks bool
}

type harness struct {
	sp      *spec
	f       *netutil.IPv4Filter
	clock   int
	wspans  [][]span // per writer, per op
	lookups []*lookup
}

// tick is a monitor event: it makes the relative order of calls and returns part of
// the explored trace and gives each a logical time.
func (h *harness) tick(name string) int {
	vsched.Event(name)
	h.clock++
	return h.clock
}

func covers(r string, addr string) bool { return cidr(r).Contains(net.ParseIP(addr)) }

func (h *harness) judge(l *lookup) string {
	must, may := false, false
	touched := map[string]bool{}
	for _, r := range allRanges(h.sp) {
		touched[r] = true
	}
	for _, r := range h.sp.pre {
		if covers(r, l.addr) && !touched[r] {
			must, may = true, true
		}
	}
	for wi, ops := range h.sp.writers {
		// timeline of each range owned by this writer
		type iv struct{ defFrom, defTo, posFrom, posTo int }
		cur := map[string]*iv{}
		var all []struct {
			r string
			v *iv
		}
		const inf = 1 << 30
		// a range added before the threads started and later removed by this writer
		for _, r := range h.sp.pre {
			for _, op := range ops {
				if op.r == r && cur[r] == nil {
					v := &iv{defFrom: 0, defTo: inf, posFrom: 0, posTo: inf}
					cur[r] = v
					all = append(all, struct {
						r string
						v *iv
					}{r, v})
				}
			}
		}
		for oi, op := range ops {
			sp := h.wspans[wi][oi]
			if sp.callT == 0 {
				sp.callT, sp.retT = inf, inf // never executed
			}
			if sp.retT == 0 {
				sp.retT = inf
			}
			if op.add {
				if v := cur[op.r]; v != nil {
					continue // already present: stays present
				}
				v := &iv{defFrom: sp.retT, defTo: inf, posFrom: sp.callT, posTo: inf}
				cur[op.r] = v
				all = append(all, struct {
					r string
					v *iv
				}{op.r, v})
			} else if v := cur[op.r]; v != nil {
				v.defTo, v.posTo = sp.callT, sp.retT
				delete(cur, op.r)
			}
		}
		for _, a := range all {
			if !covers(a.r, l.addr) {
				continue
			}
			if a.v.defFrom <= l.inv && l.ret <= a.v.defTo {
				must = true
			}
			if a.v.posFrom <= l.ret && l.inv <= a.v.posTo {
				may = true
			}
		}
	}
	if must && !l.got {
		return fmt.Sprintf("C12: Contains(%s) returned false although a range covering it was present for the whole call [%d,%d]", l.addr, l.inv, l.ret)
	}
	if !may && l.got {
		return fmt.Sprintf("C12: Contains(%s) returned true although no range present at any time during the call [%d,%d] covers it", l.addr, l.inv, l.ret)
	}
	return ""
}

func body(sp *spec) func(c *vsched.Ctx) {
	return func(c *vsched.Ctx) {
		h := &harness{sp: sp, f: netutil.NewIPv4Filter()}
		for _, r := range sp.pre {
			if err := h.f.Add(cidr(r)); err != nil {
				vsched.Fail("C12: Add(" + r + ") failed: " + err.Error())
			}
		}
		var wg vsync.WaitGroup
		h.wspans = make([][]span, len(sp.writers))
		for wi, ops := range sp.writers {
			wi, ops := wi, ops
			h.wspans[wi] = make([]span, len(ops))
			wg.Add(1)
			vsched.GoNamed(fmt.Sprintf("writer%d", wi), func() {
				defer wg.Done()
				t := h.tick(fmt.Sprintf("w%d-0", wi))
				for oi, op := range ops {
					if oi > 0 && sp.callTicks {
						// an instant of its own for the call: between the previous return and this one the
						// writer's ranges are definitely what the previous operations made them
						t = h.tick(fmt.Sprintf("w%d-%dc", wi, oi))
					}
					h.wspans[wi][oi].callT = t
					var err error
					if op.add {
						err = h.f.Add(cidr(op.r))
					} else {
						err = h.f.Remove(cidr(op.r))
					}
					if err != nil {
						vsched.Fail(fmt.Sprintf("C12: writer op on %s failed: %v", op.r, err))
					}
					t = h.tick(fmt.Sprintf("w%d-%d", wi, oi+1))
					h.wspans[wi][oi].retT = t
				}
			})
		}
		for ri, addrs := range sp.readers {
			ri, addrs := ri, addrs
			wg.Add(1)
			vsched.GoNamed(fmt.Sprintf("reader%d", ri), func() {
				defer wg.Done()
				t := h.tick(fmt.Sprintf("r%d-0", ri))
				for ai, a := range addrs {
					l := &lookup{addr: a, inv: t}
					l.got = h.f.Contains(ip4(a))
					t = h.tick(fmt.Sprintf("r%d-%d", ri, ai+1))
					l.ret = t
					h.lookups = append(h.lookups, l)
				}
			})
		}
		c.OnEnd(func() string {
			var lab []string
			for _, l := range h.lookups {
				if m := h.judge(l); m != "" {
					return m
				}
				// vacuity: did the lookup overlap the migrating Add (writer 0, op index 2)?
				ov := ""
				if len(h.wspans) > 0 && len(h.wspans[0]) > 2 {
					m := h.wspans[0][2]
					if m.callT != 0 && m.callT <= l.ret && (m.retT == 0 || l.inv <= m.retT) {
						ov = "~mig"
					}
				}
				lab = append(lab, fmt.Sprintf("%s=%v%s", l.addr, l.got, ov))
			}
			sort.Strings(lab)
			c.Outcome(strings.Join(lab, " "))
			return ""
		})
		wg.Wait()
		// once updates stopped: agreement with each goroutine's operations applied in order
		final := map[string]bool{}
		for _, r := range sp.pre {
			final[r] = true
		}
		for _, ops := range sp.writers {
			for _, op := range ops {
				if op.add {
					final[op.r] = true
				} else {
					delete(final, op.r)
				}
			}
		}
		probes := map[string]bool{}
		for _, rr := range append(append([]string{}, sp.pre...), allRanges(sp)...) {
			n := cidr(rr)
			first := n.IP.To4()
			last := make(net.IP, 4)
			for i := range last {
				last[i] = first[i] | ^n.Mask[i]
			}
			for _, p := range []net.IP{first, last, step(first, -1), step(last, 1)} {
				probes[p.String()] = true
			}
		}
		for _, p := range keys(probes) { // sorted: the harness must not add nondeterminism of its own
			want := false
			for r := range final {
				if covers(r, p) {
					want = true
				}
			}
			if got := h.f.Contains(ip4(p)); got != want {
				vsched.Fail(fmt.Sprintf("C12: after all updates stopped Contains(%s)=%v, the set %v says %v", p, got, keys(final), want))
			}
			// a genuine IPv6 address that merely ends in the same four bytes is covered by no IPv4 range
			v6 := append(net.IP{0x20, 0x01, 0x0d, 0xb8, 0, 0, 0, 0, 0, 0, 0, 0}, ip4(p)...)
			if final["0.0.0.0/0"] == false && h.f.Contains(v6) {
				vsched.Fail(fmt.Sprintf("C12: after all updates stopped Contains(%s)=true, an IPv6 address no IPv4 range covers (set %v)", v6, keys(final)))
			}
		}
	}
}

func keys(m map[string]bool) []string {
	var k []string
	for x := range m {
		k = append(k, x)
	}
	sort.Strings(k)
	return k
}

func allRanges(sp *spec) []string {
	var out []string
	for _, ops := range sp.writers {
		for _, op := range ops {
			out = append(out, op.r)
		}
	}
	return out
}

func step(ip net.IP, d int) net.IP {
	v := uint32(ip[0])<<24 | uint32(ip[1])<<16 | uint32(ip[2])<<8 | uint32(ip[3])
	v += uint32(int32(d))
	return net.IP{byte(v >> 24), byte(v >> 16), byte(v >> 8), byte(v)}
}

func main() {
	if *vcommon.Variant == "" {
	}
	A := func(r string) wop { return wop{true, r} }
	R := func(r string) wop { return wop{false, r} }
	// list size 3: p0 fills slot 0, r1 r2 fill the list, r3 migrates to maps, r4 lands in the maps, r2 removed from the maps
	w1 := []wop{A("10.1.0.0/16"), A("10.2.0.0/16"), A("10.3.0.0/16"), A("10.4.0.0/16"), R("10.2.0.0/16")}
	w1short := []wop{A("10.1.0.0/16"), A("10.2.0.0/16"), A("10.3.0.0/16"), R("10.2.0.0/16")}
	w1rm := []wop{A("10.1.0.0/16"), R("10.1.0.0/16"), A("10.2.0.0/16"), A("10.3.0.0/16"), A("10.4.0.0/16")} // removed slot before the switch
	w2all := []wop{A("0.0.0.0/0"), R("0.0.0.0/0")}
	w2own := []wop{A("172.16.0.0/12"), R("172.16.0.0/12")}
	pre := []string{"192.168.0.0/24"}
	always, never, churn := "192.168.0.77", "8.8.8.8", "10.2.3.4"
	sA := &spec{pre: pre, writers: [][]wop{w1}, readers: [][]string{{always, never, churn}}}
	sB := &spec{pre: pre, writers: [][]wop{w1short, w2all}, readers: [][]string{{always, never}}}
	sC := &spec{pre: pre, writers: [][]wop{w1short, w2own}, readers: [][]string{{churn, always}}}
	sD := &spec{pre: pre, writers: [][]wop{w1rm}, readers: [][]string{{"10.1.2.3", always}, {never, "10.4.0.1"}}}
	// removals of ranges that were never added, after the switch to maps, as many as there are live ranges
	absent := []wop{R("203.0.113.0/24"), R("203.0.114.0/24"), R("203.0.115.0/24"), R("203.0.116.0/24"), R("203.0.117.0/24")}
	sF := &spec{pre: []string{"192.168.0.0/24", "10.1.0.0/16", "10.2.0.0/16", "10.3.0.0/16"}, writers: [][]wop{absent}, readers: [][]string{{always, churn, never}}}
	sE := &spec{pre: []string{"10.2.0.0/16"}, writers: [][]wop{{A("0.0.0.0/0"), R("10.2.0.0/16")}}, readers: [][]string{{churn}}} // the "either answer" case of the statement
	// every kind of prefix length on both sides of the switch: host ranges (/32), /31, /16, /2 (none covering another)
	wG := []wop{A("10.1.0.0/16"), A("10.2.0.0/16"), A("203.0.113.9/32"), A("203.0.113.10/31"), R("10.1.0.0/16")}
	sG := &spec{pre: []string{"192.0.2.1/32", "64.0.0.0/2"}, writers: [][]wop{wG}, readers: [][]string{{"192.0.2.1", "203.0.113.9", "200.1.2.3"}}}
	// the same range added twice by its owner (Add does not have to deduplicate) and then removed once: it is gone
	wH := []wop{A("10.2.0.0/16"), A("10.2.0.0/16"), R("10.2.0.0/16")}
	sH := &spec{writers: [][]wop{wH}, readers: [][]string{{churn, never}}}
	sH3 := &spec{writers: [][]wop{wH, w2own}, readers: [][]string{{churn}}}
	sH2 := &spec{pre: []string{"10.2.0.0/16", "10.9.0.0/16"}, writers: [][]wop{{A("10.2.0.0/16"), R("10.2.0.0/16"), A("10.4.0.0/16")}}, readers: [][]string{{churn, "10.9.1.1"}}}
	// 0.0.0.0/0 present (from before, or added by a second writer and kept) while a writer crosses the list->maps switch
	sB2 := &spec{pre: []string{"192.168.0.0/24", "0.0.0.0/0"}, writers: [][]wop{w1short}, readers: [][]string{{never, always}}}
	sB3 := &spec{pre: pre, writers: [][]wop{w1short, {A("0.0.0.0/0")}}, readers: [][]string{{never}}}
	sA2 := &spec{pre: pre, writers: [][]wop{w1}, readers: [][]string{{churn, churn}}, callTicks: true}
	sB4 := &spec{pre: pre, writers: [][]wop{w1short, w2all}, readers: [][]string{{never}}, callTicks: true}
	P := func(b ...int) sdrive.Plan { return sdrive.Plan{Bounds: b} }
	PS := func(n int, b ...int) sdrive.Plan { return sdrive.Plan{Bounds: b, Shards: n} }
	scens := []sdrive.Scenario{
		{Name: "G-prefix-lengths-across-switch", Props: []string{"C12"}, About: "a /32 and a /2 present before, a /32 and a /31 added after the list->maps switch; a reader probes the host addresses while the writer crosses the switch",
			Quick: P(0, 1, 2), Thorough: PS(16, 0, 1, 2, -1), Body: body(sG), MinOutcomes: 1},
		{Name: "A-writer+reader", Props: []string{"C12"}, About: "one writer crossing the list->maps switch then removing, one reader (always / never / churned address)",
			Quick: P(0, 1, -1), Thorough: P(0, 1, -1), Body: body(sA), MinOutcomes: 2},
		{Name: "B-writer+matchall+reader", Props: []string{"C12"}, About: "writer crossing the switch, second writer toggling 0.0.0.0/0, reader",
			Quick: PS(8, 0, 1, 2, 3), Thorough: PS(16, 0, 1, 2, -1), Body: body(sB), MinOutcomes: 2},
		{Name: "B2-matchall-present-across-switch", Props: []string{"C12"}, About: "0.0.0.0/0 present from the start and never removed while a writer crosses the list->maps switch: every lookup is true throughout",
			Quick: P(0, 1, -1), Body: body(sB2), MinOutcomes: 1},
		{Name: "B3-matchall-added-and-kept", Props: []string{"C12"}, About: "a second writer adds 0.0.0.0/0 and keeps it while the first crosses the switch; afterwards everything is contained",
			Quick: PS(8, 0, 1, 2), Thorough: PS(16, 0, 1, 2, 3, -1), Body: body(sB3), MinOutcomes: 2},
		{Name: "A2-churned-range-present-throughout", Props: []string{"C12"}, About: "as A with an instant of its own for every writer call: a lookup that falls between the return of Add(r) and the call of Remove(r) must be true",
			Quick: P(0, 1, -1), Body: body(sA2), MinOutcomes: 2},
		{Name: "B4-matchall-window", Props: []string{"C12"}, About: "as B with call instants: while 0.0.0.0/0 is present (between the return of its Add and the call of its Remove) every lookup is true, also across the switch",
			Quick: PS(8, 0, 1, 2), Thorough: PS(16, 0, 1, 2, 3, -1), Body: body(sB4), MinOutcomes: 2},
		{Name: "C-two-writers+reader", Props: []string{"C12"}, About: "two writers owning different ranges, reader on the churned address",
			Quick: PS(8, 0, 1, 2, 3), Thorough: PS(16, 0, 1, 2, -1), Body: body(sC), MinOutcomes: 2},
		{Name: "D-removed-slot+two-readers", Props: []string{"C12"}, About: "a slot removed before the switch, two readers",
			Quick: PS(8, 0, 1, 2, 3), Thorough: PS(16, 0, 1, 2, -1), Body: body(sD), MinOutcomes: 2},
		{Name: "F-absent-removes-after-switch", Props: []string{"C12"}, About: "the filter is already in maps mode (4 ranges with list size 3); a writer removes five ranges nobody added while a reader looks up stable ranges",
			Quick: P(0, 1, -1), Body: body(sF), MinOutcomes: 1},
		{Name: "H-duplicate-add+remove", Props: []string{"C12"}, About: "a writer adds the same range twice and removes it once (list mode) while a reader probes it: the range is gone, whichever slot each copy sits in",
			Quick: P(0, 1, -1), Body: body(sH), MinOutcomes: 2},
		{Name: "H3-duplicate-add+remove+second-writer", Props: []string{"C12"}, About: "as H, while a second writer adds and removes its own range, so the copies sit in different slots",
			Quick: PS(8, 0, 1, 2), Thorough: PS(16, 0, 1, 2, 3, -1), Body: body(sH3), MinOutcomes: 2},
		{Name: "H2-readd-present+remove-across-switch", Props: []string{"C12"}, About: "a range present before is added again, removed once, then the list->maps switch happens; a reader probes it and a stable range",
			Quick: P(0, 1, -1), Body: body(sH2), MinOutcomes: 2},
		{Name: "E-either-answer", Props: []string{"C12"}, About: "0.0.0.0/0 added then the specific range removed while a lookup is in flight: both answers are allowed by the statement",
			Quick: P(0, 1, -1), Body: body(sE), MinOutcomes: 2},
	}
	// C12 states freedom from data races
	sdrive.RaceViolates = func(id, msg string) bool { return true }
	vcommon.RaceViolates = func(id, report string) bool { return strings.Contains(report, "/util/netutil.") }
	sdrive.Main("model_checking", scens, []string{
		"netutil is rebuilt with listSize=3 (constant override by the instrumenter) so that the migration is reachable; the real size 256 differs only in that constant",
		"code between two visible operations (RWMutex, atomic, monitor event) is atomic; justified by the happens-before race check on every IPv4Filter field",
		"the oracle is the statement's own (weaker than linearizability): true required if one range is present throughout the call, false required if none is present at any time during it",
	})
}
