// Command c13 decides C13: every line of the Text handler splits unambiguously into
// key=value tokens that unquote to exactly what was logged. Same generators as C01 plus
// group names over arbitrary bytes and class-representative strings in every position; an
// independent tokenizer and the reference flattening decide.
package main

import (
	"bytes"
	"flag"
	"fmt"
	"strings"
	"time"

	"verif/engine/vcommon"
	"verif/engine/vlog"
	"verif/engine/vlogrun"
	"verif/engine/voracle"
)

func cutLast(s string, sep byte) (before, after string, found bool) {
	if i := strings.LastIndexByte(s, sep); i >= 0 {
		return s[:i], s[i+1:], true
	}
	return s, "", false
}

func judge(r *vlogrun.Rec, file string, line int, chunks [][]byte) string {
	// how many Write calls carry the line is C02's subject: the record is what they carry together
	out := bytes.Join(chunks, nil)
	if len(out) == 0 || out[len(out)-1] != '\n' {
		return fmt.Sprintf("line does not end in a newline: %q", vlogrun.Clip(out))
	}
	body := string(out[:len(out)-1])
	if strings.ContainsAny(body, "\n\r") {
		return fmt.Sprintf("line break inside the record: %q", vlogrun.Clip(out))
	}
	toks, err := voracle.TokenizeTextLine(body)
	if err != nil {
		return fmt.Sprintf("line does not split into key=value tokens (%v): %q", err, vlogrun.Clip(out))
	}
	call := r.Call
	if r.Entry == 2 {
		call = nil
	}
	keys, leaves := vlog.Flatten(vlog.Expected(r.Chain, call), nil)
	wantN := 3 + len(keys)
	if r.Source {
		wantN++
	}
	if len(toks) != wantN {
		return fmt.Sprintf("%d tokens, want %d (time, level, [source], msg and %d attributes): %q", len(toks), wantN, len(keys), vlogrun.Clip(out))
	}
	if toks[0].Key != "time" {
		return fmt.Sprintf("first token is %q", toks[0].Key)
	}
	// at whatever precision the handler prints it
	if t, err := time.Parse(time.RFC3339Nano, toks[0].Val); err != nil || t.After(vlogrun.Fake) || vlogrun.Fake.Sub(t) >= time.Second {
		return fmt.Sprintf("time %q is not the record's time", toks[0].Val)
	}
	if toks[1].Key != "level" || toks[1].Val != vlogrun.LevelNames[r.Level] {
		return fmt.Sprintf("level token is %s=%s, want %s", toks[1].Key, toks[1].Val, vlogrun.LevelNames[r.Level])
	}
	i := 2
	if r.Source {
		want := fmt.Sprintf("%s:%d", vlogrun.LastTwo(file), line)
		gotFile, gotLine, _ := cutLast(toks[2].Val, ':')
		if toks[2].Key != "source" || gotLine != fmt.Sprint(line) || !vlogrun.IsFileOf(gotFile, file) {
			return fmt.Sprintf("source token is %s=%s, the call site is %s", toks[2].Key, toks[2].Val, want)
		}
		i = 3
	}
	if toks[i].Key != "msg" || toks[i].Val != r.Msg {
		return fmt.Sprintf("msg token is %q=%q, want %q: %q", toks[i].Key, toks[i].Val, r.Msg, vlogrun.Clip(out))
	}
	for k := range keys {
		t := toks[i+1+k]
		if t.Key != keys[k] {
			return fmt.Sprintf("attribute %d has key %q, want the dotted path %q: %q", k, t.Key, keys[k], vlogrun.Clip(out))
		}
		if want, ok := leaves[k].TextMatches(t.Val); !ok {
			return fmt.Sprintf("attribute %q (%s) has value %q, want %q: %q", keys[k], leaves[k].Name, t.Val, want, vlogrun.Clip(out))
		}
	}
	return ""
}

func main() {
	flag.Parse() // before anything asks for the tier
	passes := append(vlogrun.StandardPasses(),
		vlogrun.Pass{Name: "group-names", Gen: vlogrun.GenGroupNames(vcommon.Thorough()), TrackStates: false},
		vlogrun.Pass{Name: "class-strings(<=3 runes of 15 classes, 4 positions)", Gen: vlogrun.GenClassPairs(), TrackStates: false})
	vlogrun.Main("C13", 1, judge, passes,
		"every record is logged through the real Logger/TextHandler and its bytes are split by an independent key=value tokenizer (bare run free of whitespace, '=' and '\"', or Go-quoted string); the decoded tokens must be exactly time, level, [source], msg and one token per leaf attribute with its dotted group path; states = distinct handler states reached by With/WithGroup chains",
		[]any{"msg=\"a=\\\" \\n\" key=\"\\u00a0k\" group=\"g.h =\" value=\"\\xff\"", "chain=WithGroup(\"g\").With[\"k1\":nil] call=[G(\"\"){\"k2\":float-nan}]"},
		[]string{"colour off; the five valid levels", "values rendered with fmt (json.RawMessage) are only required to be one token", "time is compared at the handler's one-second resolution"})
}
