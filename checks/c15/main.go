// Command c15 decides C15: Logger.Relay contains handler panics and logs each request once,
// truthfully. (I) every handler behaviour x panic point x panic value x matched/no-route x
// three log handlers x two thresholds through the real Mux.ServeHTTP with an
// httptest.ResponseRecorder. (S) 2-3 such requests in flight under the scheduler.
package main

import (
	"errors"
	"fmt"
	"io"
	"net/http"
	"net/http/httptest"
	"net/url"
	"os"
	"regexp"
	"strings"
	"time"

	"github.com/whoisnian/glb/httpd"
	"github.com/whoisnian/glb/logger"
	"verif/engine/sdrive"
	"verif/engine/shim/vsched"
	"verif/engine/shim/vtime"
	"verif/engine/vcommon"
	"verif/engine/voracle"
)

type sink struct {
	chunks []string
}

func (s *sink) Write(p []byte) (int, error) {
	s.chunks = append(s.chunks, string(p))
	return len(p), nil
}

var handlerNames = []string{"nano", "text", "json"}

func newLogger(kind int, w *sink, level int) *logger.Logger {
	lv := logger.LevelInfo
	switch level {
	case 1:
		lv = logger.LevelError
	case 2:
		lv = logger.LevelFatal
	}
	opts := logger.NewOptions(lv, false, false)
	switch kind {
	case 0:
		return logger.New(logger.NewNanoHandler(w, opts))
	case 1:
		return logger.New(logger.NewTextHandler(w, opts))
	}
	return logger.New(logger.NewJsonHandler(w, opts))
}

// ---- handler behaviours

type writeKind struct {
	name   string
	status int // 0: no WriteHeader
	body   bool
	flush  int // 1: Flush(), 2: FlushError() - commits the implicit 200 like a Write does
}

var writes = []writeKind{
	{"silent", 0, false, 0}, {"header-200", 200, false, 0}, {"header-204", 204, false, 0}, {"header-301", 301, false, 0}, {"header-404", 404, false, 0},
	{"header-500", 500, false, 0}, {"header-599", 599, false, 0}, {"body-only", 0, true, 0}, {"header-200+body", 200, true, 0}, {"header-404+body", 404, true, 0}, {"header-500+body", 500, true, 0},
	{"flush-only", 0, false, 1}, {"flusherror-only", 0, false, 2}, {"header-404+flush", 404, false, 1},
	{"body-streamed-with-io.Copy", 0, true, 3},                                 // through io.ReaderFrom, should the writer have one
	{"body-streamed-with-io.Copy-from-a-source-that-fails-midway", 0, true, 4}, // where the behaviour panics "after writing", the panic comes out of the source's second Read
}

// midwayReader delivers three bytes, then (armed) panics inside Read, else delivers the rest
type midwayReader struct {
	calls int
	armed bool
	boom  any
}

func (m *midwayReader) Read(p []byte) (int, error) {
	m.calls++
	if m.calls == 1 {
		return copy(p, "hel"), nil
	}
	if m.armed {
		panic(m.boom)
	}
	return copy(p, "lo"), io.EOF
}

type nilErr struct{ x int }

func (e *nilErr) Error() string {
	if e == nil {
		return "nil-receiver-error"
	}
	return "err"
}

// valErr has a value receiver: calling Error() through a nil *valErr panics inside the method
// call itself (a typed nil pointer is the classic way such a value ends up in an error)
type valErr struct{ msg string }

func (e valErr) Error() string { return e.msg }

type pstruct struct {
	A int
	B string
}

type panicKind struct {
	name string
	val  func() any
	// rendering per log handler: nano/text string, json: string or raw
	text  string
	json  string // expected JSON rendering (as JSON text)
	isNil bool
	loose bool // how the value is spelled is open; the record must carry a panic value all the same
}

var panics = []panicKind{
	{"string", func() any { return "boom" }, "boom", `"boom"`, false, false},
	{"error", func() any { return errors.New("an error") }, "an error", `"an error"`, false, false},
	{"int", func() any { return 42 }, "42", `42`, false, false},
	{"struct", func() any { return pstruct{1, "x"} }, "{1 x}", `{"A":1,"B":"x"}`, false, true},
	{"typed-nil-error", func() any { return (*nilErr)(nil) }, "nil-receiver-error", `"nil-receiver-error"`, false, true},
	{"nil", func() any { return nil }, "", "", true, false},
	{"typed-nil-error-with-value-receiver", func() any { return (*valErr)(nil) }, "", "", false, true},
	{"slice (not hashable, not comparable)", func() any { return []string{"a", "b"} }, "", "", false, true},
	{"map", func() any { return map[string]int{"a": 1} }, "", "", false, true},
	{"struct holding a slice", func() any { return struct{ P []byte }{[]byte("x")} }, "", "", false, true},
	{"func", func() any { return func() {} }, "", "", false, true},
	{"error wrapping http.ErrAbortHandler", func() any { return fmt.Errorf("upstream gone: %w", http.ErrAbortHandler) }, "", "", false, true},
}

const (
	pNone = iota
	pBefore
	pAfter
)

var pointNames = []string{"no-panic", "panic-before-writing", "panic-after-writing"}

type behaviour struct {
	w     writeKind
	point int
	pk    int
}

func (b behaviour) String() string {
	s := b.w.name + "/" + pointNames[b.point]
	if b.point != pNone {
		s += "(" + panics[b.pk].name + ")"
	}
	return s
}

func (b behaviour) run(s *httpd.Store, yield bool) {
	if b.point == pBefore {
		panic(panics[b.pk].val())
	}
	if b.w.status != 0 {
		s.W.WriteHeader(b.w.status)
	}
	if yield {
		vsched.Yield("in-handler")
	}
	if b.w.body && b.w.flush == 4 {
		src := &midwayReader{}
		if b.point == pAfter {
			src.armed, src.boom = true, panics[b.pk].val()
		}
		io.Copy(s.W, src)
	} else if b.w.body && b.w.flush == 3 {
		io.Copy(s.W, io.LimitReader(strings.NewReader("hello"), 5)) // a source without WriteTo
	} else if b.w.body {
		s.W.Write([]byte("hello"))
	}
	switch b.w.flush {
	case 1:
		s.W.Flush()
	case 2:
		s.W.FlushError()
	}
	if b.point == pAfter {
		panic(panics[b.pk].val())
	}
}

// expected status the client receives
func (b behaviour) wantCode() int {
	wrote := b.point != pBefore && (b.w.status != 0 || b.w.body || b.w.flush != 0)
	if b.point != pNone && !wrote {
		return 500
	}
	if b.point == pBefore {
		return 500
	}
	if b.w.status != 0 {
		return b.w.status
	}
	return 200
}

// ---- decoding of records

type record struct {
	level  string
	fields map[string]string
	order  []string
	raw    string
	tokens []string // positional handlers (nano): the fields after the tag, in order
}

// carries reports whether the record gives want for the named piece of information: a keyed
// member where the handler has keys, any field where it is positional.
func (r *record) carries(key, want string) bool {
	if r.tokens != nil {
		for _, t := range r.tokens {
			if t == want {
				return true
			}
		}
		return false
	}
	// under which key a handler files a piece of information is its own choice
	for _, k := range r.order {
		if r.fields[k] == want {
			return true
		}
	}
	return false
}

// tag is REQ_BEG / REQ_END when the record says so anywhere, else "".
func (r *record) tag() string {
	if t := r.fields["tag"]; t == "REQ_BEG" || t == "REQ_END" {
		return t
	}
	for _, k := range r.order {
		if v := r.fields[k]; v == "REQ_BEG" || v == "REQ_END" {
			return v
		}
	}
	return ""
}

// about reports whether the record carries the request id.
func (r *record) about(id string) bool {
	return r.fields["tid"] == id || (r.tokens == nil && len(r.order) > 0 && r.carries("", id))
}

func decode(kind int, chunk string) (*record, string) {
	r := &record{fields: map[string]string{}, raw: chunk}
	if !strings.HasSuffix(chunk, "\n") {
		return nil, "record does not end in a newline"
	}
	body := strings.TrimSuffix(chunk, "\n")
	switch kind {
	case 2:
		v, err := voracle.ParseJSONLine([]byte(body))
		if err != nil || v.Kind != 'o' {
			return nil, fmt.Sprintf("record is not one JSON object: %v", err)
		}
		for _, m := range v.Members {
			val := m.Val.String()
			if m.Val.Kind == 's' {
				val = m.Val.Str
			}
			r.fields[m.Key] = val
			r.order = append(r.order, m.Key)
		}
		r.level = r.fields["level"]
	case 1:
		toks, err := voracle.TokenizeTextLine(body)
		if err != nil {
			return nil, fmt.Sprintf("record does not tokenize: %v", err)
		}
		for _, t := range toks {
			r.fields[t.Key] = t.Val
			r.order = append(r.order, t.Key)
		}
		r.level = r.fields["level"]
	case 0:
		// positional: date time level [msg…] values…
		first := body
		if i := strings.IndexByte(body, '\n'); i >= 0 {
			first = body[:i]
		}
		f := strings.Split(first, " ")
		if len(f) < 3 {
			return nil, "nano record too short"
		}
		r.level = map[string]string{"[D]": "DEBUG", "[I]": "INFO", "[W]": "WARN", "[E]": "ERROR", "[F]": "FATAL"}[f[2]]
		rest := f[3:]
		if len(rest) > 1 && (rest[0] == "REQ_BEG" || rest[0] == "REQ_END") {
			// positional: what is required is that the pieces are there, the request id last
			r.fields["tag"], r.fields["tid"], r.tokens = rest[0], rest[len(rest)-1], rest[1:]
		} else {
			// panic record: message (stack) … panic value … tid : take the last field of the last line as tid
			last := body
			if i := strings.LastIndexByte(body, '\n'); i >= 0 {
				last = body[i+1:]
			}
			lf := strings.Split(last, " ")
			r.fields["tid"] = lf[len(lf)-1]
			r.fields["tail"] = last
		}
	}
	return r, ""
}

// ---- one request

type reqSpec struct {
	b       behaviour
	matched bool
	method  string
	uri     string
	remote  string
	wantIP  string
}

type world struct {
	kind, level int
	w           *sink
	mux         *httpd.Mux
	cur         map[string]*reqSpec // by uri
	seenID      map[string]string   // uri -> id seen by the handler
	yield       bool
}

func newWorld(kind, level int) *world {
	wd := &world{kind: kind, level: level, w: &sink{}, cur: map[string]*reqSpec{}, seenID: map[string]string{}}
	l := newLogger(kind, wd.w, level)
	wd.mux = httpd.NewMux()
	wd.mux.HandleRelay(l.Relay)
	h := func(s *httpd.Store) {
		rs := wd.cur[s.R.RequestURI]
		wd.seenID[s.R.RequestURI] = strings.Clone(s.GetID())
		rs.b.run(s, wd.yield)
	}
	wd.mux.Handle("/m/*", "*", h)
	wd.mux.HandleNoRoute(h)
	return wd
}

func (wd *world) serve(rs *reqSpec) (code int, escaped any) {
	wd.cur[rs.uri] = rs
	rec := httptest.NewRecorder()
	defer func() {
		if r := recover(); r != nil {
			escaped = r
		}
		code = rec.Code
	}()
	// like net/http's own response, the writer offers io.ReaderFrom (io.Copy prefers it)
	wd.mux.ServeHTTP(readerFromRecorder{rec}, &http.Request{Method: rs.method, URL: &url.URL{Path: rs.uri}, RequestURI: rs.uri, RemoteAddr: rs.remote, Header: http.Header{}})
	return
}

type readerFromRecorder struct{ *httptest.ResponseRecorder }

func (r readerFromRecorder) ReadFrom(src io.Reader) (int64, error) {
	return io.Copy(struct{ io.Writer }{r.ResponseRecorder}, src)
}

// judge checks the records belonging to one request (selected by uri).
func (wd *world) judge(rs *reqSpec, code int, escaped any, chunks []string) string {
	desc := fmt.Sprintf("%s handler, threshold %s, %s %s, behaviour %s", handlerNames[wd.kind], []string{"Info", "Error", "Fatal"}[wd.level], rs.method, rs.uri, rs.b)
	if escaped != nil {
		return fmt.Sprintf("C15: panic escaped ServeHTTP (%v) [%s]", escaped, desc)
	}
	if want := rs.b.wantCode(); code != want {
		return fmt.Sprintf("C15: client received status %d, want %d [%s]", code, want, desc)
	}
	id := wd.seenID[rs.uri]
	var beg, end, errs []*record
	// in how many Write calls a record arrives is C02's subject: pieces are joined up to the newline
	var whole []string
	pending := ""
	for _, c := range chunks {
		pending += c
		if strings.HasSuffix(pending, "\n") {
			whole = append(whole, pending)
			pending = ""
		}
	}
	if pending != "" {
		whole = append(whole, pending)
	}
	for _, c := range whole {
		r, why := decode(wd.kind, c)
		if why != "" {
			return fmt.Sprintf("C15: %s: %q [%s]", why, clip(c), desc)
		}
		if !r.about(id) {
			continue // another request's record
		}
		switch {
		case r.tag() == "REQ_BEG":
			beg = append(beg, r)
		case r.tag() == "REQ_END":
			end = append(end, r)
		case r.level == "ERROR":
			errs = append(errs, r)
		default:
			// other records about the request are not this property's business
		}
	}
	wantInfo := 1
	if wd.level >= 1 {
		wantInfo = 0
	}
	if len(beg) != wantInfo || len(end) != wantInfo {
		return fmt.Sprintf("C15: %d REQ_BEG and %d REQ_END records carry the id the handler saw (counter part %q), want %d each [%s]", len(beg), len(end), idTail(id), wantInfo, desc)
	}
	for _, r := range append(append([]*record{}, beg...), end...) {
		if r.level != "INFO" {
			return fmt.Sprintf("C15: %s logged at level %s [%s]", r.tag(), r.level, desc)
		}
		if !r.carries("method", rs.method) || !r.carries("path", rs.uri) || !r.carries("ip", rs.wantIP) {
			return fmt.Sprintf("C15: %s does not carry method %q, URI %q and client IP %q: %q [%s]", r.tag(), rs.method, rs.uri, rs.wantIP, clip(r.raw), desc)
		}
	}
	if wantInfo == 1 && !end[0].carries("code", fmt.Sprint(code)) {
		return fmt.Sprintf("C15: REQ_END does not carry the status %d the client received: %q [%s]", code, clip(end[0].raw), desc)
	}
	wantErr := 0
	if rs.b.point != pNone && wd.level <= 1 {
		wantErr = 1
	}
	if len(errs) != wantErr {
		return fmt.Sprintf("C15: %d Error records for the request, want %d [%s]", len(errs), wantErr, desc)
	}
	if wantErr == 1 {
		pk := panics[rs.b.pk]
		r := errs[0]
		switch wd.kind {
		case 2:
			if pk.loose || pk.isNil {
				// any spelling; the record is there, at Error level, with the id
			} else {
				w, _ := voracle.ParseJSONLine([]byte(pk.json))
				want := w.String()
				if w.Kind == 's' {
					want = w.Str
				}
				if !r.carries("panic", want) && !r.carries("panic", pk.text) {
					return fmt.Sprintf("C15: the Error record does not carry the panic value %s: %q [%s]", want, clip(r.raw), desc)
				}
			}
		case 1:
			if !pk.isNil && !pk.loose && !r.carries("panic", pk.text) {
				return fmt.Sprintf("C15: the Error record does not carry the panic value %q: %q [%s]", pk.text, clip(r.raw), desc)
			}
		case 0:
			if pk.loose && !strings.HasSuffix(r.fields["tail"], " "+id) {
				return fmt.Sprintf("C15: Error record does not end in the request id: %q [%s]", clip(r.fields["tail"]), desc)
			}
			if !pk.isNil && !pk.loose && !strings.HasSuffix(r.fields["tail"], " "+pk.text+" "+id) {
				return fmt.Sprintf("C15: Error record does not end in the panic value and id: %q [%s]", clip(r.fields["tail"]), desc)
			}
		}
	}
	return ""
}

func idTail(id string) string {
	if len(id) > 9 {
		return id[9:]
	}
	return id
}

var reID = regexp.MustCompile(`[A-Z2-7]{8}-`)

func clip(s string) string {
	s = reID.ReplaceAllString(s, "<prefix>-") // the per-Mux random id prefix must not make messages irreproducible
	if len(s) > 200 {
		return s[:120] + "…" + s[len(s)-60:]
	}
	return s
}

func allBehaviours() []behaviour {
	var out []behaviour
	for _, w := range writes {
		out = append(out, behaviour{w, pNone, 0})
		for pk := range panics {
			out = append(out, behaviour{w, pAfter, pk})
		}
	}
	for pk := range panics {
		out = append(out, behaviour{writes[0], pBefore, pk})
	}
	return out
}

// ---- S part

func sbody(kind int, specs []reqSpec) func(c *vsched.Ctx) {
	return func(c *vsched.Ctx) {
		wd := newWorld(kind, 0)
		wd.yield = true
		type res struct {
			code int
			esc  any
		}
		results := make([]*res, len(specs))
		for i := range specs {
			i := i
			rs := &specs[i]
			wd.cur[rs.uri] = rs
			vsched.GoNamed(fmt.Sprintf("client%d", i), func() {
				code, esc := wd.serve(rs)
				results[i] = &res{code, esc}
			})
		}
		c.OnEnd(func() string {
			ids := map[string]bool{}
			for i := range specs {
				if results[i] == nil {
					return fmt.Sprintf("C15: client%d did not finish", i)
				}
				if why := wd.judge(&specs[i], results[i].code, results[i].esc, wd.w.chunks); why != "" {
					return why
				}
				if ids[wd.seenID[specs[i].uri]] {
					return "C15: two requests share an id"
				}
				ids[wd.seenID[specs[i].uri]] = true
			}
			var order []string
			for _, ch := range wd.w.chunks {
				r, _ := decode(kind, ch)
				if r != nil {
					t := r.tag()
					if t == "" {
						t = "ERR"
					}
					order = append(order, t[len(t)-3:]+idTail(r.fields["tid"]))
				}
			}
			c.Outcome(strings.Join(order, ","))
			return ""
		})
	}
}

func main() {
	fake := time.Date(2023, 8, 16, 0, 35, 15, 0, time.UTC)
	vtime.SetFake(&fake)
	P := func(b ...int) sdrive.Plan { return sdrive.Plan{Bounds: b} }
	PS := func(n int, b ...int) sdrive.Plan { return sdrive.Plan{Bounds: b, Shards: n} }
	bs := allBehaviours()
	mk := func(uri string, b behaviour) reqSpec {
		return reqSpec{b: b, matched: true, method: "GET", uri: uri, remote: "10.0.3.201:4455", wantIP: "10.0.3.201"}
	}
	var scens []sdrive.Scenario
	q3 := []sdrive.Plan{{Delay: true, Bounds: []int{0, 1, 2, 3}}, {Delay: true, Bounds: []int{0, 1, 2}, Shards: 8}, {Delay: true, Bounds: []int{0, 1, 2, 3}}}
	for k := 0; k < 3; k++ {
		scens = append(scens,
			sdrive.Scenario{Name: "S-" + handlerNames[k] + "-2inflight", Props: []string{"C15"}, About: "a request panicking before writing and one writing 404 then panicking, in flight together",
				Quick: P(0, 1, 2), Thorough: PS(16, 0, 1, -1),
				Body: sbody(k, []reqSpec{mk("/m/a", behaviour{writes[0], pBefore, 1}), mk("/m/b", behaviour{writes[4], pAfter, 3})}), MinOutcomes: 2},
			sdrive.Scenario{Name: "S-" + handlerNames[k] + "-3inflight", Props: []string{"C15"}, About: "three requests: silent, header+body, panic(string) after body",
				Quick: q3[k], Thorough: PS(16, 0, 1, 2),
				Body: sbody(k, []reqSpec{mk("/m/a", behaviour{writes[0], pNone, 0}), mk("/x/none", behaviour{writes[8], pNone, 0}), mk("/m/c", behaviour{writes[7], pAfter, 0})}), MinOutcomes: 2},
		)
	}
	sdrive.Budget = 0.6 // the rest of the time cap belongs to the sequential part below
	cov, viols := sdrive.Collect(scens)
	// ---- I part: every behaviour x route kind x handler x threshold, sequentially on one Mux each
	evals := 0
	distinct := map[string]bool{}
	for kind := 0; kind < 3; kind++ {
		for level := 0; level < 3; level++ {
			wd := newWorld(kind, level)
			n := 0
			for _, b := range bs {
				for _, matched := range []bool{true, false} {
					for _, v := range []struct{ method, remote, ip string }{{"GET", "10.0.3.201:4455", "10.0.3.201"}, {"DELETE", "[2001:db8::1]:80", "2001:db8::1"}} {
						n++
						uri := fmt.Sprintf("/m/r%d?q=1", n)
						if !matched {
							uri = fmt.Sprintf("/none/r%d", n)
						}
						rs := &reqSpec{b: b, matched: matched, method: v.method, uri: uri, remote: v.remote, wantIP: v.ip}
						before := len(wd.w.chunks)
						code, esc := wd.serve(rs)
						evals++
						distinct[fmt.Sprintf("%s|%d|%v", b, code, matched)] = true
						if why := wd.judge(rs, code, esc, wd.w.chunks[before:]); why != "" && len(viols) < 5 {
							viols = append(viols, vcommon.Violation{Scenario: "I-behaviours", Fingerprint: fmt.Sprintf("I|%s|%s|matched=%v", handlerNames[kind], b, matched),
								Message: why, Witness: map[string]any{"behaviour": b.String(), "handler": handlerNames[kind], "matched": matched, "threshold": level}})
						}
					}
				}
			}
		}
	}
	fmt.Printf("I-part: %d requests judged, %d distinct (behaviour, status, route kind) classes\n", evals, len(distinct))
	cov["traces_validated_against_impl"] = cov["traces_validated_against_impl"].(int) + evals
	cov["evaluations"] = cov["evaluations"].(int) + evals
	cov["distinct_nontrivial"] = cov["distinct_nontrivial"].(int) + len(distinct)
	cov["sequential_requests"] = evals
	cov["behaviour_classes"] = len(distinct)
	cov["samples"] = append(cov["samples"].([]any), "header-404+body/panic-after-writing(struct) on a matched route, json handler, threshold Info -> client 404, REQ_BEG, ERROR{panic:{A:1,B:x}}, REQ_END code=404")
	code, n := vcommon.Report("C15", viols)
	vcommon.WriteEvidence(&vcommon.Evidence{PropertyID: "C15", Level: "model_checking", Coverage: cov, Violations: n, Assumptions: []string{
		"requests are constructed *http.Request values served through Mux.ServeHTTP with an httptest.ResponseRecorder as the client's view",
		"panic values: string, error, int, struct, typed-nil pointer implementing error (nil-safe), panic(nil); http.ErrAbortHandler is excluded by the statement",
		"status codes 200, 204, 301, 404, 500, 599; informational 1xx codes are not generated",
	}})
	os.Exit(code)
}
