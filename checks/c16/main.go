// Command c16 decides C16: ShellEscape yields exactly one shell word that evaluates back to
// the input. Every string up to length 5 over the 15-symbol alphabet of the statement (and
// every single byte 1..255) is escaped by the real functions and judged (1) by a
// word-splitting model of POSIX quoting and (2) by the real dash and bash.
package main

import (
	"bytes"
	"flag"
	"fmt"
	"os"
	"os/exec"
	"strconv"
	"strings"
	"sync"

	"github.com/whoisnian/glb/util/strutil"
	"verif/engine/vcommon"
	"verif/engine/voracle"
)

var alphabet = []byte{'\'', '"', '\\', '$', '`', ' ', '\n', ';', '&', '|', '*', '~', '!', '#', 'a'}

const home = "/vhome/u s'r"

func enumerate(maxLen int, f func(s string)) {
	// shortest first, so that the first counterexample is also the simplest
	var rec func(prefix []byte, n int)
	rec = func(prefix []byte, n int) {
		if n == 0 {
			f(string(prefix))
			return
		}
		for _, c := range alphabet {
			rec(append(prefix, c), n-1)
		}
	}
	for l := 0; l <= maxLen; l++ {
		rec(make([]byte, 0, maxLen), l)
	}
	// tilde prefixes: "~" + w + "/" + w' for every w, w' of length <= 2 (the slash is not in the
	// alphabet, but it is what delimits the part ExceptTilde may leave to the shell)
	var short []string
	short = append(short, "")
	for _, a := range alphabet {
		short = append(short, string([]byte{a}))
		for _, b := range alphabet {
			short = append(short, string([]byte{a, b}))
		}
	}
	for _, w := range short {
		for _, w2 := range short {
			f("~" + w + "/" + w2)
		}
	}
	for b := 1; b < 256; b++ {
		f(string([]byte{byte(b)}))
		f("~/" + string([]byte{byte(b)}))
		f("a" + string([]byte{byte(b)}) + "a")
	}
}

// expected value of the single word
func want(fn int, s string) (string, bool) {
	if fn == 1 && strings.HasPrefix(s, "~/") {
		return voracle.TildeHome + s[1:], true // tilde expanded, the rest literal
	}
	return s, false
}

func escape(fn int, s string) string {
	if fn == 0 {
		return strutil.ShellEscape(s)
	}
	return strutil.ShellEscapeExceptTilde(s)
}

var fnNames = []string{"ShellEscape", "ShellEscapeExceptTilde"}

func judgeModel(fn int, s string) string {
	esc := escape(fn, s)
	words, events := voracle.ShellWords("p " + esc)
	w, tilde := want(fn, s)
	if len(words) != 2 || words[0] != "p" {
		return fmt.Sprintf("%s(%q) = %q reads as %d words %q", fnNames[fn], s, esc, len(words)-1, words[1:])
	}
	if words[1] != w {
		return fmt.Sprintf("%s(%q) = %q evaluates to %q", fnNames[fn], s, esc, words[1])
	}
	wantEv := 0
	if tilde {
		wantEv = 1
	}
	if len(events) != wantEv || (tilde && events[0] != "tilde expansion") {
		return fmt.Sprintf("%s(%q) = %q triggers %v", fnNames[fn], s, esc, events)
	}
	return ""
}

// runShell feeds the escaped words to a real shell and returns what the program saw.
func runShell(shell string, fn int, inputs []string) ([][]string, error) {
	words := make([]string, len(inputs))
	for i, s := range inputs {
		words[i] = escape(fn, s)
	}
	return runShellWords(shell, words)
}

func runShellWords(shell string, words []string) ([][]string, error) {
	var script bytes.Buffer
	script.WriteString("p() { printf '%d\\0' \"$#\"; for a in \"$@\"; do printf '%s\\0' \"$a\"; done; }\n")
	for _, w := range words {
		script.WriteString("p ")
		script.WriteString(w)
		script.WriteString("\n")
	}
	dir, err := os.MkdirTemp("", "c16")
	if err != nil {
		return nil, err
	}
	defer os.RemoveAll(dir)
	cmd := exec.Command(shell)
	if shell == "bash" {
		cmd = exec.Command(shell, "--noprofile", "--norc")
	}
	cmd.Dir = dir
	cmd.Env = []string{"HOME=" + home, "PATH=/nonexistent", "LC_ALL=C"}
	cmd.Stdin = &script
	var out bytes.Buffer
	cmd.Stdout = &out
	// a syntax error shows up as truncated output and a non-zero exit status; a shell that
	// cannot be started, or that is killed, is a failure of the environment and not of the word
	if err := cmd.Run(); err != nil {
		ee, isExit := err.(*exec.ExitError)
		if !isExit || !ee.Exited() {
			return nil, fmt.Errorf("%s did not run to its end: %v", shell, err)
		}
	}
	fields := bytes.Split(out.Bytes(), []byte{0})
	var res [][]string
	for i := 0; i < len(fields)-1; {
		n, err := strconv.Atoi(string(fields[i]))
		if err != nil || i+1+n > len(fields)-1 {
			break
		}
		var args []string
		for k := 0; k < n; k++ {
			args = append(args, string(fields[i+1+k]))
		}
		res = append(res, args)
		i += 1 + n
	}
	return res, nil
}

func main() {
	flag.Parse()
	modelLen, shellLen := 5, 4
	if vcommon.Thorough() {
		modelLen, shellLen = 6, 5
	}
	var viols []vcommon.Violation
	add := func(scen, msg, fp string) {
		if len(viols) < 6 {
			viols = append(viols, vcommon.Violation{Scenario: scen, Fingerprint: fp, Message: "C16: " + msg, Witness: map[string]any{"input": fp}})
		}
	}
	// ---- model pass
	evals, special := 0, 0
	for fn := 0; fn < 2; fn++ {
		// results are kept across calls: a word returned earlier must not change when the
		// function is called again (it would if results aliased a reused buffer)
		var keptIn []string
		var keptOut, keptCopy []string
		enumerate(modelLen, func(s string) {
			evals++
			if strings.ContainsAny(s, "'\"\\$` \n;&|*~!#") {
				special++
			}
			if why := judgeModel(fn, s); why != "" {
				add("model", why, fmt.Sprintf("model|%s|%q", fnNames[fn], s))
			}
			out := escape(fn, s)
			keptIn, keptOut, keptCopy = append(keptIn, s), append(keptOut, out), append(keptCopy, strings.Clone(out))
			if len(keptIn) == 4 {
				for i := range keptIn {
					if keptOut[i] != keptCopy[i] {
						add("model", fmt.Sprintf("the word returned by %s(%q) changed from %q to %q after later calls", fnNames[fn], keptIn[i], keptCopy[i], keptOut[i]), fmt.Sprintf("kept|%s|%q", fnNames[fn], keptIn[i]))
					}
				}
				keptIn, keptOut, keptCopy = keptIn[:0], keptOut[:0], keptCopy[:0]
			}
		})
	}
	fmt.Printf("model: %d strings judged (%d containing a special character)\n", evals, special)
	// ---- real shells
	for _, sh := range []string{"dash", "bash"} {
		// the shells must be there and understand the harness itself
		res, err := runShellWords(sh, []string{"'a b'", "''"})
		if err != nil || len(res) != 2 || len(res[0]) != 1 || res[0][0] != "a b" || len(res[1]) != 1 || res[1][0] != "" {
			vcommon.Infra("%s is not usable in this environment: %v %q", sh, err, res)
		}
	}
	var inputs []string
	enumerate(shellLen, func(s string) { inputs = append(inputs, s) })
	shellEvals := 0
	var mu sync.Mutex
	var wg sync.WaitGroup
	chunk := (len(inputs) + 7) / 8
	for _, sh := range []string{"dash", "bash"} {
		for fn := 0; fn < 2; fn++ {
			for c := 0; c*chunk < len(inputs); c++ {
				sh, fn := sh, fn
				part := inputs[c*chunk : min((c+1)*chunk, len(inputs))]
				wg.Add(1)
				go func() {
					defer wg.Done()
					res, err := runShell(sh, fn, part)
					mu.Lock()
					defer mu.Unlock()
					if err != nil {
						vcommon.Infra("cannot run %s: %v", sh, err)
					}
					shellEvals += len(part)
					for i, s := range part {
						w, _ := want(fn, s)
						w = strings.ReplaceAll(w, voracle.TildeHome, home)
						if i >= len(res) {
							add(sh, fmt.Sprintf("%s stopped before %s(%q) = %q (the preceding words broke the script: %d of %d commands ran)", sh, fnNames[fn], s, escape(fn, s), len(res), len(part)), fmt.Sprintf("%s|%s|%q", sh, fnNames[fn], s))
							break
						}
						if len(res[i]) != 1 || res[i][0] != w {
							add(sh, fmt.Sprintf("%s reads %s(%q) = %q as %d word(s) %q, want one word %q", sh, fnNames[fn], s, escape(fn, s), len(res[i]), res[i], w), fmt.Sprintf("%s|%s|%q", sh, fnNames[fn], s))
							break
						}
					}
				}()
			}
		}
	}
	wg.Wait()
	fmt.Printf("shells: %d words judged by dash and bash\n", shellEvals)
	code, n := vcommon.Report("C16", viols)
	vcommon.WriteEvidence(&vcommon.Evidence{PropertyID: "C16", Level: "exploration", Violations: n,
		Coverage: map[string]any{
			"evaluations": evals + shellEvals, "distinct_nontrivial": special,
			"rule":       fmt.Sprintf("every string of length <= %d over the 15-symbol alphabet {' \" \\ $ ` space newline ; & | * ~ ! # a} plus every single byte 1..255 (alone, after ~/, and between letters), for both functions, through the POSIX word-splitting model; length <= %d through real dash and bash (one word equal to the input, or $HOME/rest for ExceptTilde on ~/ inputs); non-trivial = strings containing at least one special character", modelLen, shellLen),
			"exhaustive": true, "model_evaluations": evals, "shell_evaluations": shellEvals, "shells": []string{"dash", "bash"},
			"samples": []any{"'\"'\"'", "~/a b", "$`\\\n;", "a'\n#"},
		},
		Assumptions: []string{"the shells run non-interactively with HOME=" + home + ", PATH=/nonexistent, LC_ALL=C in an empty directory", "strings contain no NUL (as in the statement)"}})
	os.Exit(code)
}
