// Command c17 decides C17: ResolveUrlPath never leaves the base directory. Every URL path
// of length <= 8 over {'/', '.', 'a', '\\'} is resolved against 12 bases by the real
// function; an independent lexical containment oracle judges the result.
package main

import (
	"flag"
	"fmt"
	"os"
	"path/filepath"
	"strings"

	"github.com/whoisnian/glb/util/fsutil"
	"verif/engine/vcommon"
)

var bases = []string{"/data", "/data/", "/", ".", "./", "rel", "rel/sub/", "../up", "a/../b", "/x/./y//", "../..", "/data/../other"}

func segs(p string) []string {
	var out []string
	for _, s := range strings.Split(p, "/") {
		if s != "" && s != "." {
			out = append(out, s)
		}
	}
	return out
}

// beneath reports whether result is cb itself or lexically below it.
func beneath(cb, result string) bool {
	if filepath.IsAbs(cb) != filepath.IsAbs(result) {
		return false
	}
	b, r := segs(cb), segs(result)
	if len(r) < len(b) {
		return false
	}
	for i := range b {
		if b[i] != r[i] {
			return false
		}
	}
	for _, s := range r[len(b):] {
		if s == ".." {
			return false
		}
	}
	return true
}

func hasDotSeg(p string) bool {
	for _, s := range strings.Split(p, "/") {
		if s == "." || s == ".." {
			return true
		}
	}
	return false
}

func main() {
	flag.Parse()
	alpha := []byte{'/', '.', 'a', '\\'}
	maxLen := 9
	if vcommon.Thorough() {
		maxLen = 11
	}
	var viols []vcommon.Violation
	evals, climbers := 0, 0
	check := func(p string) {
		for _, base := range bases {
			evals++
			got := fsutil.ResolveUrlPath(base, p)
			cb := filepath.Clean(base)
			if !beneath(cb, got) {
				if len(viols) < 5 {
					viols = append(viols, vcommon.Violation{Scenario: "containment", Fingerprint: fmt.Sprintf("%q|%q", base, p),
						Message: fmt.Sprintf("C17: ResolveUrlPath(%q, %q) = %q is not %q or beneath it", base, p, got, cb), Witness: map[string]any{"base": base, "path": p}})
				}
			}
			if !hasDotSeg(p) {
				want := filepath.Clean(base + "/" + p)
				if got != want && len(viols) < 5 {
					viols = append(viols, vcommon.Violation{Scenario: "plain-join", Fingerprint: fmt.Sprintf("join|%q|%q", base, p),
						Message: fmt.Sprintf("C17: ResolveUrlPath(%q, %q) = %q, want the plain join %q", base, p, got, want), Witness: map[string]any{"base": base, "path": p}})
				}
			}
		}
	}
	// shortest first, so that the first counterexample is also the simplest
	var rec func(prefix []byte, n int)
	rec = func(prefix []byte, n int) {
		if n == 0 {
			s := string(prefix)
			if strings.Contains(s, "..") {
				climbers++
			}
			check(s)
			return
		}
		for _, c := range alpha {
			rec(append(prefix, c), n-1)
		}
	}
	for l := 0; l <= maxLen; l++ {
		rec(make([]byte, 0, maxLen), l)
	}
	// second alphabet: percent-escapes must stay literal text (the function takes a URL *path*, already decoded)
	alpha = []byte{'/', '.', '%', '2', 'e', 'f'}
	for l := 1; l <= 7; l++ {
		rec(make([]byte, 0, 8), l)
	}
	// wide but shallow: long paths made of one repeated unit (every count up to 130: segment
	// limits, fixed-size stacks, recursion depth), followed by each short climbing tail
	var tails []string
	for _, a := range []string{"", "..", "../..", "../../..", "a", "a/..", "../a", "./..", "..//..", "/..", "x/../../.."} {
		tails = append(tails, a, a+"/", a+"/etc")
	}
	for _, unit := range []string{"/", "a/", "./", "../", "a/../", "//", "/./", "ab/"} {
		for n := 1; n <= 130; n++ {
			w := strings.Repeat(unit, n)
			for _, t := range tails {
				if strings.Contains(w+t, "..") {
					climbers++
				}
				check(w + t)
				check("/" + w + t)
			}
		}
	}
	// bases that start with a tilde are directory names like any other, whatever $HOME says
	saved := bases
	bases = []string{"~", "~/pub", "~user/x", "./~", "~/../x"}
	home, hadHome := os.LookupEnv("HOME")
	for _, h := range []string{"", "/home/somebody", "UNSET"} {
		if h == "UNSET" {
			os.Unsetenv("HOME")
		} else {
			os.Setenv("HOME", h)
		}
		for _, p := range []string{"", "/", "/a", "a/b", "/..", "/../../etc/passwd", "/a/../..", "//", "/./a"} {
			check(p)
		}
	}
	if hadHome {
		os.Setenv("HOME", home)
	} else {
		os.Unsetenv("HOME")
	}
	bases = saved
	for _, p := range []string{"%2e%2e/x", "..%2f", "a/../../../../../etc/passwd", "/..", "....//", "/a/b/../../../c", "\x00/..", "..\\..\\x"} {
		check(p)
	}
	fmt.Printf("%d (base, path) pairs judged; %d paths contain '..'\n", evals, climbers)
	code, n := vcommon.Report("C17", viols)
	vcommon.WriteEvidence(&vcommon.Evidence{PropertyID: "C17", Level: "exploration", Violations: n,
		Coverage: map[string]any{
			"evaluations": evals, "distinct_nontrivial": climbers,
			"rule":       "every string of length <= " + fmt.Sprint(maxLen) + " over {'/', '.', 'a', '\\\\'} x 12 bases (absolute, relative, '.', trailing slash, '..' inside and leading); the result must be the cleaned base or lexically beneath it (segment-wise, no '..' below the base), and for paths free of dot segments equal Clean(base + '/' + path); non-trivial = paths containing '..'; plus every string of length <= 7 over {'/', '.', '%', '2', 'e', 'f'} (percent-escapes must stay literal)",
			"exhaustive": true, "bases": bases, "samples": []any{"/../a", "..", "/a/..//../.", "\\..\\a"},
		},
		Assumptions: []string{"POSIX file system: the backslash is an ordinary character", "containment is lexical (symbolic links on disk are outside the function's contract)"}})
	os.Exit(code)
}
