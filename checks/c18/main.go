// Command c18 decides C18: CopyFile and MoveFile never lose file content. Scenarios
// (size x destination x alias x parent x directory x source presence, on a real temporary
// directory, MoveFile also across two file systems) are crossed with every single fault
// position (quick) / every pair (thorough): the instrumented osutil numbers each file
// system call in a fault-free dry run, then the scenario is re-run failing exactly the
// i-th call (copies may also stop after k bytes).
package main

import (
	"bytes"
	"flag"
	"fmt"
	"os"
	"path/filepath"
	"strings"
	"syscall"

	"github.com/whoisnian/glb/util/osutil"
	"verif/engine/sdrive"
	"verif/engine/shim/vos"
	"verif/engine/shim/vsched"
	"verif/engine/vcommon"
)

type scenario struct {
	fn       string // "copy" | "move"
	size     int
	dest     string // absent | existing | dir
	alias    string // none | same | dotslash | symlink | hardlink
	parent   string // ok | missing | file
	srcThere bool
	crossFS  bool
	exdev    bool // inject EXDEV on the rename (when no second file system is available)
	zeros    int  // 1: the second half of the content is zero bytes, 2: all of it (holes, sparse-file shortcuts)
}

func (s scenario) String() string {
	z := ""
	if s.zeros > 0 {
		z = []string{"", " content=zero-tail", " content=all-zero"}[s.zeros]
	}
	return fmt.Sprintf("%s size=%d%s dest=%s alias=%s parent=%s source=%v crossfs=%v", s.fn, s.size, z, s.dest, s.alias, s.parent, s.srcThere, s.crossFS || s.exdev)
}

func content(n int, seed byte) []byte {
	b := make([]byte, n)
	for i := range b {
		b[i] = byte(i*7) ^ seed ^ byte(i>>8)
	}
	return b
}

type env struct {
	root, root2      string
	src, dst         string
	srcData, dstData []byte
	dstExisted       bool
}

var otherFS string

// tmpSuffix is set per scenario by the generator (alias "tmpsibling")
var tmpSuffix = ".tmp"

// setup builds the scenario on disk and returns the paths.
func setup(s scenario, base string) (*env, bool) {
	e := &env{root: filepath.Join(base, "a")}
	os.RemoveAll(e.root)
	os.MkdirAll(e.root, 0o755)
	e.src = filepath.Join(e.root, "src.bin")
	destRoot := e.root
	if s.crossFS {
		e.root2 = filepath.Join(otherFS, filepath.Base(base))
		os.RemoveAll(e.root2)
		os.MkdirAll(e.root2, 0o755)
		destRoot = e.root2
	}
	if s.srcThere {
		e.srcData = content(s.size, 0x5a)
		switch s.zeros {
		case 1:
			clear(e.srcData[len(e.srcData)/2:])
		case 2:
			clear(e.srcData)
		}
		if err := os.WriteFile(e.src, e.srcData, 0o644); err != nil {
			return nil, false
		}
	}
	parent := destRoot
	switch s.parent {
	case "missing":
		parent = filepath.Join(destRoot, "nodir")
	case "file":
		parent = filepath.Join(destRoot, "afile")
		os.WriteFile(parent, []byte("i am a file"), 0o644)
	}
	e.dst = filepath.Join(parent, "dst.bin")
	if strings.HasPrefix(s.alias, "tmpsibling:") {
		tmpSuffix = strings.TrimPrefix(s.alias, "tmpsibling:")
		s.alias = "tmpsibling"
		if s.dest == "existing" {
			e.dstData = content(777, 0x11)
			os.WriteFile(e.dst, e.dstData, 0o644)
			e.dstExisted = true
		}
	}
	switch s.alias {
	case "same":
		e.dst = e.src
	case "dotslash":
		e.dst = e.root + "/./" + "src.bin"
	case "symlink":
		if !s.srcThere || s.parent != "ok" {
			return nil, false
		}
		if os.Symlink(e.src, e.dst) != nil {
			return nil, false
		}
	case "hardlink":
		if !s.srcThere || s.parent != "ok" || s.crossFS {
			return nil, false
		}
		if os.Link(e.src, e.dst) != nil {
			return nil, false
		}
	case "tmpsibling":
		// the source is named like the scratch file a "write aside, then rename" copy would use
		if !s.srcThere || s.parent != "ok" || s.crossFS {
			return nil, false
		}
		os.Remove(e.src)
		e.src = e.dst + tmpSuffix
		if os.WriteFile(e.src, e.srcData, 0o644) != nil {
			return nil, false
		}
	case "srclink":
		// the other way round: the source path is a symbolic link to the destination file
		if !s.srcThere || s.parent != "ok" {
			return nil, false
		}
		os.Remove(e.src)
		if os.WriteFile(e.dst, e.srcData, 0o644) != nil || os.Symlink(e.dst, e.src) != nil {
			return nil, false
		}
	default:
		if s.parent == "ok" {
			switch s.dest {
			case "existing":
				e.dstData = content(777, 0x11)
				os.WriteFile(e.dst, e.dstData, 0o644)
				e.dstExisted = true
			case "dir":
				os.Mkdir(e.dst, 0o755)
			}
		}
	}
	return e, true
}

func readOrNil(p string) ([]byte, bool) {
	b, err := os.ReadFile(p)
	if err != nil {
		return nil, false
	}
	return b, true
}

type outcome struct {
	calls []string
	fail  string
	label string
}

// run executes the scenario with the given faults and judges the result.
func run(s scenario, base string, faults map[int]vos.Fault) outcome {
	e, ok := setup(s, base)
	if !ok {
		return outcome{label: "n/a"}
	}
	vos.Reset()
	vos.FailAt = faults
	if s.exdev {
		if faults == nil {
			vos.FailAt = map[int]vos.Fault{}
		}
		if _, has := vos.FailAt[1]; !has {
			vos.FailAt[1] = vos.Fault{Err: syscall.EXDEV}
		}
	}
	aliased := s.alias != "none"
	var removeViolation string
	vos.OnCall = func(n int, op string, args []string) {
		if op == "remove" && len(args) == 1 && args[0] == e.src && s.srcThere {
			// the source may only be removed once the destination is complete
			if d, ok := readOrNil(e.dst); !ok || !bytes.Equal(d, e.srcData) {
				removeViolation = fmt.Sprintf("the source is being removed (call %d) although the destination does not hold its content yet", n)
			}
		}
	}
	var err error
	if s.fn == "copy" {
		_, err = osutil.CopyFile(e.src, e.dst)
	} else {
		err = osutil.MoveFile(e.src, e.dst)
	}
	calls := append([]string{}, vos.Log...)
	vos.Reset()
	o := outcome{calls: calls}
	srcNow, srcOK := readOrNil(e.src)
	dstNow, dstOK := readOrNil(e.dst)
	desc := func(m string) string {
		return fmt.Sprintf("%s [%s; faults %v; calls %v; returned %v]", m, s, faultList(faults), calls, err)
	}
	if removeViolation != "" {
		o.fail = desc(removeViolation)
		return o
	}
	if !s.srcThere {
		if err == nil {
			o.fail = desc("returned nil although the source does not exist")
		}
		o.label = "no-source:error"
		return o
	}
	if s.fn == "copy" {
		if err == nil {
			if !dstOK || !bytes.Equal(dstNow, e.srcData) {
				o.fail = desc(fmt.Sprintf("CopyFile returned nil but the destination holds %d bytes that are not the source's %d bytes", len(dstNow), len(e.srcData)))
			} else if !srcOK || !bytes.Equal(srcNow, e.srcData) {
				o.fail = desc(fmt.Sprintf("CopyFile returned nil but the source now holds %d bytes instead of its %d bytes", len(srcNow), len(e.srcData)))
			}
			o.label = "copy:ok"
		} else {
			if !srcOK || !bytes.Equal(srcNow, e.srcData) {
				o.fail = desc(fmt.Sprintf("CopyFile failed and the source's content is lost (%d of %d bytes left)", len(srcNow), len(e.srcData)))
			}
			o.label = "copy:error"
		}
		return o
	}
	if err == nil {
		if !dstOK || !bytes.Equal(dstNow, e.srcData) {
			o.fail = desc(fmt.Sprintf("MoveFile returned nil but the destination holds %d bytes that are not the source's %d bytes", len(dstNow), len(e.srcData)))
		} else if !aliased && srcOK {
			o.fail = desc("MoveFile returned nil but the source is still there")
		}
		o.label = "move:ok"
	} else {
		if !srcOK || !bytes.Equal(srcNow, e.srcData) {
			o.fail = desc(fmt.Sprintf("MoveFile failed and the source is gone or changed (%d of %d bytes left)", len(srcNow), len(e.srcData)))
		}
		o.label = "move:error"
	}
	return o
}

func faultList(f map[int]vos.Fault) string {
	var s []string
	for k, v := range f {
		s = append(s, fmt.Sprintf("call %d (after %d bytes)", k, v.After))
	}
	return strings.Join(s, ", ")
}

func scenarios() []scenario {
	var out []scenario
	sizes := []int{0, 1, 32<<10 + 1, 3 << 20}
	for _, fn := range []string{"copy", "move"} {
		for _, size := range sizes {
			for _, dest := range []string{"absent", "existing", "dir"} {
				for _, parent := range []string{"ok", "missing", "file"} {
					if parent != "ok" && dest != "absent" {
						continue
					}
					for _, src := range []bool{true, false} {
						if !src && size != 1 {
							continue
						}
						out = append(out, scenario{fn: fn, size: size, dest: dest, alias: "none", parent: parent, srcThere: src})
						if fn == "move" {
							out = append(out, scenario{fn: fn, size: size, dest: dest, alias: "none", parent: parent, srcThere: src, crossFS: otherFS != "", exdev: otherFS == ""})
						}
					}
				}
			}
			if size == 1 {
				for _, suf := range []string{".tmp", ".bak", "~", ".part", ".new", ".swp", ".copy"} {
					out = append(out, scenario{fn: fn, size: size, dest: "absent", alias: "tmpsibling:" + suf, parent: "ok", srcThere: true})
					out = append(out, scenario{fn: fn, size: size, dest: "existing", alias: "tmpsibling:" + suf, parent: "ok", srcThere: true})
				}
				if fn == "move" && otherFS != "" {
					// the destination is, on the other file system, a symbolic link back to the source
					out = append(out, scenario{fn: fn, size: size, dest: "absent", alias: "symlink", parent: "ok", srcThere: true, crossFS: true})
				}
			}
			for _, alias := range []string{"same", "dotslash", "symlink", "hardlink", "srclink"} {
				out = append(out, scenario{fn: fn, size: size, dest: "absent", alias: alias, parent: "ok", srcThere: true})
				if fn == "move" && alias == "symlink" {
					out = append(out, scenario{fn: fn, size: size, dest: "absent", alias: alias, parent: "ok", srcThere: true, exdev: true})
				}
			}
		}
	}
	// content with holes, at sizes that are multiples of the usual block sizes
	for _, fn := range []string{"copy", "move"} {
		for _, size := range []int{64 << 10, 128 << 10, 1 << 20} {
			for z := 1; z <= 2; z++ {
				out = append(out, scenario{fn: fn, size: size, dest: "absent", alias: "none", parent: "ok", srcThere: true, zeros: z})
				if fn == "move" {
					out = append(out, scenario{fn: fn, size: size, dest: "existing", alias: "none", parent: "ok", srcThere: true, zeros: z, crossFS: otherFS != "", exdev: otherFS == ""})
				}
			}
		}
	}
	return out
}

// sCopy: CopyFile / MoveFile of one file under the controlled scheduler. The unchanged code copies
// on the calling goroutine (one execution per scenario); an implementation that reads ahead on a
// goroutine of its own, hands chunks over channels or selects between a data and an end-of-file
// channel is explored through every interleaving and every choice of a ready select case.
func sCopy(size int, move bool) func(c *vsched.Ctx) {
	return func(c *vsched.Ctx) {
		dir, err := os.MkdirTemp("", "c18s")
		if err != nil {
			vsched.Fail("INFRA: " + err.Error())
			return
		}
		defer os.RemoveAll(dir)
		content := make([]byte, size)
		for i := range content {
			content[i] = byte(i*7 + i>>8)
		}
		src, dst := filepath.Join(dir, "src"), filepath.Join(dir, "dst")
		os.WriteFile(src, content, 0o644)
		os.WriteFile(dst, []byte("old destination content"), 0o644)
		vos.Reset()
		var n int64 = -1
		if move {
			// the rename fails with EXDEV: the copy fallback runs. Which numbered call the rename is
			// is learnt from a dry move of a scratch pair.
			s2, d2 := filepath.Join(dir, "src2"), filepath.Join(dir, "dst2")
			os.WriteFile(s2, []byte("x"), 0o644)
			osutil.MoveFile(s2, d2)
			at := 0
			for i, l := range vos.Log {
				if strings.Contains(l, "rename") {
					at = i + 1
					break
				}
			}
			vos.Reset()
			if at > 0 {
				vos.FailAt = map[int]vos.Fault{at: {Err: syscall.EXDEV}}
			}
			err = osutil.MoveFile(src, dst)
		} else {
			n, err = osutil.CopyFile(src, dst)
		}
		vos.Reset()
		got, _ := os.ReadFile(dst)
		_, srcErr := os.Stat(src)
		what := "CopyFile"
		if move {
			what = "MoveFile (rename refused with EXDEV)"
		}
		switch {
		case err == nil && !bytes.Equal(got, content):
			vsched.Fail(fmt.Sprintf("C18: %s of %d bytes returned nil (n=%d) but the destination holds %d bytes, not the source's content", what, size, n, len(got)))
		case err == nil && !move && n != int64(size):
			vsched.Fail(fmt.Sprintf("C18: CopyFile of %d bytes returned (%d, nil)", size, n))
		case err != nil && srcErr != nil:
			vsched.Fail(fmt.Sprintf("C18: %s failed (%v) and the source is gone", what, err))
		case err == nil && move && srcErr == nil:
			vsched.Fail("C18: MoveFile returned nil and the source is still there")
		}
		c.Outcome(fmt.Sprintf("err=%v", err != nil))
	}
}

func main() {
	flag.Parse()
	var scens []sdrive.Scenario
	for _, sz := range []int{1, 40000, 300000, 1<<20 + 5} {
		for _, mv := range []bool{false, true} {
			name := fmt.Sprintf("S-copy-%d", sz)
			if mv {
				name = fmt.Sprintf("S-move-%d", sz)
			}
			scens = append(scens, sdrive.Scenario{Name: name, Props: []string{"C18"}, About: "one copy / cross-device move of a file of this size under the controlled scheduler: every interleaving of whatever goroutines the implementation uses",
				Quick: sdrive.Plan{Bounds: []int{0, 1, 2}}, Thorough: sdrive.Plan{Bounds: []int{0, 1, 2, 3, -1}}, Body: sCopy(sz, mv), MinOutcomes: 1, AllowRace: true})
		}
	}
	sdrive.Budget = 0.3
	scov, sviols := sdrive.Collect(scens)
	base, err := vcommon.TempDir("", "c18")
	if err != nil {
		vcommon.Infra("%v", err)
	}
	defer os.RemoveAll(base)
	// a second file system for real EXDEV
	if d, err := vcommon.TempDir("/dev/shm", "c18"); err == nil {
		probe := filepath.Join(base, "probe")
		os.WriteFile(probe, []byte("x"), 0o644)
		if err := os.Rename(probe, filepath.Join(d, "probe")); err != nil && strings.Contains(err.Error(), "cross-device") {
			otherFS = d
		}
		defer os.RemoveAll(d)
	}
	viols := sviols
	evals, nScen, nFaultRuns := 0, 0, 0
	labels := map[string]int{}
	var sample []any
	add := func(s scenario, faults map[int]vos.Fault, msg string) {
		if len(viols) < 6 {
			viols = append(viols, vcommon.Violation{Scenario: s.String(), Fingerprint: fmt.Sprintf("%s|faults:%s", s, faultKey(faults)),
				Message: "C18: " + msg, Witness: map[string]any{"scenario": s.String(), "faults": faultList(faults)}})
		}
	}
	for _, s := range scenarios() {
		dry := run(s, base, nil)
		if dry.label == "n/a" {
			continue
		}
		nScen++
		evals++
		labels[dry.label]++
		if len(sample) < 3 {
			sample = append(sample, map[string]any{"scenario": s.String(), "calls_in_fault_free_run": dry.calls})
		}
		if dry.fail != "" {
			add(s, nil, dry.fail)
			continue
		}
		n := len(dry.calls)
		variants := func(i int) []vos.Fault {
			fs := []vos.Fault{{}}
			if strings.Contains(dry.calls[i-1], ":copy") {
				fs = append(fs, vos.Fault{After: 1}, vos.Fault{After: int64(s.size / 2)})
			}
			return fs
		}
		for i := 1; i <= n; i++ {
			for _, f := range variants(i) {
				o := run(s, base, map[int]vos.Fault{i: f})
				evals++
				nFaultRuns++
				labels[o.label+"/fault"]++
				if o.fail != "" {
					add(s, map[int]vos.Fault{i: f}, o.fail)
				}
				// a fault may reveal further calls (fallback path): fail each of those too
				if len(o.calls) > n || vcommon.Thorough() {
					for j := i + 1; j <= len(o.calls); j++ {
						o2 := run(s, base, map[int]vos.Fault{i: f, j: {}})
						evals++
						nFaultRuns++
						labels[o2.label+"/fault2"]++
						if o2.fail != "" {
							add(s, map[int]vos.Fault{i: f, j: {}}, o2.fail)
						}
					}
				}
			}
		}
	}
	fmt.Printf("%d scenarios, %d runs (%d with injected faults), second file system: %q, outcomes %v\n", nScen, evals, nFaultRuns, otherFS, labels)
	vcommon.Cleanup() // os.Exit below skips deferred calls
	code, n := vcommon.Report("C18", viols)
	vcommon.WriteEvidence(&vcommon.Evidence{PropertyID: "C18", Level: "fault_enumeration", Violations: n,
		Coverage: map[string]any{
			"evaluations": evals, "distinct_nontrivial": nFaultRuns,
			"rule":       "scenarios = {CopyFile, MoveFile} x size {0, 1, 32KiB+1, 3MiB} x destination {absent, existing, directory} x parent {ok, missing, regular file} x source {present, missing} x alias {none, same path, ./-spelling, symlink, hard link} (+ MoveFile across two real file systems, or with EXDEV injected); each is run fault-free and then with every single numbered file-system call failing (copies also stopping after 1 byte and after half the file), plus every further call revealed by a fault (and every pair in thorough); byte-level snapshots before/after judge; non-trivial = runs with an injected fault",
			"exhaustive": true, "scenarios": nScen, "fault_runs": nFaultRuns, "outcomes": labels, "real_cross_device": otherFS != "", "samples": sample, "copy_under_scheduler": scov,
		},
		Assumptions: []string{"faults are injected at the os/io calls of util/osutil (open, create, copy, rename, remove, stat) through the vos seam; *os.File method calls (Close) are not failed", "power-loss crash consistency is not part of the statement and not explored"}})
	os.Exit(code)
}

func faultKey(f map[int]vos.Fault) string {
	if len(f) == 0 {
		return "none"
	}
	var s []string
	for k := 1; k < 20; k++ {
		if v, ok := f[k]; ok {
			s = append(s, fmt.Sprintf("%d@%d", k, v.After))
		}
	}
	return strings.Join(s, ",")
}
