// Command c19 decides C19: ProgressWriter reports true, monotone progress and never
// stalls the writer. The instrumented util/ioutil runs under the scheduler; the call
// sequence (<= 3 calls of Write / WriteString over an underlying writer that writes
// fully, short or fails, with or without io.StringWriter) is a free choice enumerated
// by the explorer together with all interleavings of writer and consumer.
package main

import (
	"errors"
	"fmt"
	"os"
	"strings"

	"github.com/whoisnian/glb/util/ioutil"
	"verif/engine/sdrive"
	"verif/engine/shim/vsched"
)

var errUnder = errors.New("underlying write failed")

type under struct {
	script []int // per call of the wrapped writer: 0 full, 1 short, 2 fail
	call   int
	viaSW  int
	total  int          // bytes this writer reported, over all its calls
	last   error        // error of its latest call
	sums   map[int]bool // total after each of its calls: the values Size() takes after a completed write
}

func (u *under) do(n int) (m int, err error) {
	b := 0
	if u.call < len(u.script) {
		b = u.script[u.call]
	}
	u.call++
	switch b {
	case 1:
		m = n / 2
	case 2:
		m, err = 1, errUnder
	default:
		m = n
	}
	u.total += m
	if u.sums == nil {
		u.sums = map[int]bool{}
	}
	u.sums[u.total] = true
	u.last = err
	return m, err
}

func (u *under) Write(p []byte) (int, error) { return u.do(len(p)) }

type underSW struct{ under }

func (u *underSW) WriteString(s string) (int, error) { u.viaSW++; return u.do(len(s)) }

const smallPayload = "abcd"

var bigPayload = strings.Repeat("0123456789abcdef", 70000/16)

// hugePayload: beyond 256 KiB and 512 KiB, with an odd remainder (several pieces, should a
// writer split what it hands on)
var hugePayload = strings.Repeat("0123456789abcdef", 700001/16+1)[:700001]

// gigaPayload: 64 MiB handed over 40 times passes 2^31 bytes in one writer (the wrapped writer of
// the harness only counts, so nothing of that size is ever copied)
var gigaPayload = strings.Repeat("0123456789abcdef", (64<<20)/16)

var gigaBytes = []byte(gigaPayload)

var maxCalls = 3

// manyCalls > 0: a fixed long sequence of full writes (wide but shallow scenario)
var manyCalls = 0

const gigaCalls = 41 // this many calls mean: with the 64 MiB payload

func bodyMany(n int) func(c *vsched.Ctx) {
	inner := body(true, true)
	return func(c *vsched.Ctx) {
		manyCalls = n
		defer func() { manyCalls = 0 }()
		inner(c)
	}
}

func body(withConsumer, withClose bool) func(c *vsched.Ctx) {
	return func(c *vsched.Ctx) {
		many := manyCalls
		ncalls := manyCalls
		if manyCalls == 0 {
			ncalls = vsched.Choose(maxCalls+1, "number-of-calls")
		}
		sw := vsched.Choose(2, "underlying-has-WriteString")
		payload := smallPayload
		if manyCalls == gigaCalls {
			payload = gigaPayload
		}
		if manyCalls == 0 {
			switch vsched.Choose(3, "payload-size") {
			case 1:
				payload = bigPayload // larger than a 64 KiB chunking threshold one might introduce
			case 2:
				payload = hugePayload
			}
		}
		kinds := make([]int, ncalls) // 0 Write, 1 WriteString
		script := make([]int, ncalls)
		var desc []string
		for i := 0; i < ncalls; i++ {
			k := 0
			if many == 0 {
				k = vsched.Choose(6, "call")
			} else {
				k = (i % 2) * 3 // alternate Write / WriteString, all full
			}
			kinds[i], script[i] = k/3, k%3
			desc = append(desc, []string{"Write", "WriteString"}[k/3]+"/"+[]string{"full", "short", "fail"}[k%3])
		}
		var pw *ioutil.ProgressWriter
		var usw *underSW
		var uw *under
		if sw == 1 {
			usw = &underSW{under{script: script}}
			uw = &usw.under
			pw = ioutil.NewProgressWriter(usw)
		} else {
			uw = &under{script: script}
			pw = ioutil.NewProgressWriter(uw)
		}
		lateStatus := withConsumer && manyCalls == 0 && vsched.Choose(2, "who-calls-Status-first") == 1
		var status *vsched.Chan[int]
		if !lateStatus {
			status = pw.Status()
		}
		total := 0
		var received []int
		closedSeen := false
		writerDone := false
		var writer *vsched.Thread
		writer = vsched.GoNamed("writer", func() {
			for i := 0; i < ncalls; i++ {
				vsched.Mark("inwrite", 1)
				if kinds[i] == 0 && many == gigaCalls {
					pw.Write(gigaBytes) // no copy per call
				} else if kinds[i] == 0 {
					pw.Write([]byte(payload))
				} else {
					pw.WriteString(payload)
				}
				vsched.Mark("inwrite", 0)
				// the statement is about Size() and Status(): what Write itself hands back, and through
				// which method of the wrapped writer (and in how many pieces) the bytes go, is not part of it
				total = uw.total
				if got := pw.Size(); got != total {
					vsched.Fail(fmt.Sprintf("C19: Size()=%d after calls %v, the wrapped writer reported %d bytes in total", got, desc[:i+1], total))
				}
			}
			if withClose {
				pw.Close()
			}
			writerDone = true
		})
		c.OnStep(func() string {
			// blocked on a channel operation: that is waiting for a receiver. Waiting for a mutex that
			// another thread holds for a moment is not (a writer stuck for good is reported at the end)
			if writer != nil && writer.Marks["inwrite"] == 1 && writer.Blocked() && !strings.Contains(writer.PendingOp(), "Mutex") && !strings.Contains(writer.PendingOp(), "Once") && !strings.Contains(writer.PendingOp(), "Cond") {
				return fmt.Sprintf("C19: the writer is blocked inside Write/WriteString (%s) after calls %v", writer.PendingOp(), desc)
			}
			return ""
		})
		if withConsumer {
			vsched.GoNamed("consumer", func() {
				if lateStatus {
					status = pw.Status() // the consumer's first call, whenever it happens to come
				}
				for {
					v, ok := status.Recv2()
					if !ok {
						closedSeen = true
						return
					}
					if len(received) > 0 && v < received[len(received)-1] {
						vsched.Fail(fmt.Sprintf("C19: Status() delivered %d after %d (calls %v)", v, received[len(received)-1], desc))
					}
					received = append(received, v)
				}
			})
		}
		c.OnEnd(func() string {
			if !writerDone {
				if !withConsumer && withClose {
					// Close blocks until somebody receives: allowed, but every Write must have completed
					if writer.Marks["inwrite"] == 1 {
						return "C19: writer stuck inside Write"
					}
				} else {
					return fmt.Sprintf("C19: writer did not finish (%s), calls %v", writer.PendingOp(), desc)
				}
			}
			for _, v := range received {
				if v != 0 && !uw.sums[v] {
					return fmt.Sprintf("C19: Status() delivered %d which is not Size() after any completed write (calls %v)", v, desc)
				}
			}
			if withConsumer && withClose {
				if !closedSeen {
					return "C19: consumer never saw the channel closed after Close()"
				}
				if len(received) == 0 || received[len(received)-1] != total {
					return fmt.Sprintf("C19: last value received %v, final total %d (calls %v)", received, total, desc)
				}
			}
			if many > 0 {
				c.Outcome(fmt.Sprintf("received=%d", len(received)))
				return ""
			}
			c.Outcome(fmt.Sprintf("sw=%d big=%v calls=%s recv=%v", sw, len(payload) > 100, strings.Join(desc, ","), received))
			return ""
		})
	}
}

func main() {
	for _, a := range os.Args {
		if a == "thorough" {
			maxCalls = 4 // 1 + 6 + 36 + 216 + 1296 call sequences, times two kinds of wrapped writer
		}
	}
	P := func(b ...int) sdrive.Plan { return sdrive.Plan{Bounds: b} }
	scens := []sdrive.Scenario{
		{Name: "writer+consumer+close", Props: []string{"C19"}, About: "all call sequences <= 3 x {Write,WriteString} x {full,short,fail} x {StringWriter or not}; consumer draining Status() at every possible pace; Close",
			Quick: P(0, -1), Body: body(true, true), MinOutcomes: 50, NoSleep: true},
		{Name: "many-writes-late-consumer", Props: []string{"C19"}, About: "40 full writes, consumer draining at its own pace, Close: wide but shallow (delay-bounded) - reaches thresholds a 3-call scenario cannot",
			Quick: sdrive.Plan{Delay: true, Bounds: []int{0, 1, 2}}, Thorough: sdrive.Plan{Delay: true, Bounds: []int{0, 1, 2, 3}}, Body: bodyMany(40), MinOutcomes: 2, NoSleep: true},
		{Name: "giga-writes", Props: []string{"C19"}, About: "41 full writes of 64 MiB each (2.7 GB through one writer: totals beyond 2^31), consumer, Close",
			Quick: sdrive.Plan{Delay: true, Bounds: []int{0, 1}}, Thorough: sdrive.Plan{Delay: true, Bounds: []int{0, 1, 2}}, Body: bodyMany(gigaCalls), MinOutcomes: 1, NoSleep: true},
		{Name: "late-consumer-timers-live", Props: []string{"C19"}, About: "as writer+consumer+close with every timer allowed to fire at any moment: a Close that gives up waiting for the receiver would lose the final value",
			Quick: P(0, 1), Thorough: P(0, 1, 2), TimersLive: true, Body: body(true, true), MinOutcomes: 50, NoSleep: true},
		{Name: "writer-alone", Props: []string{"C19"}, About: "nobody ever receives: no Write may block",
			Quick: P(-1), Body: body(false, false), MinOutcomes: 50, NoSleep: true},
		{Name: "writer-alone+close", Props: []string{"C19"}, About: "nobody receives and Close is called: only Close may block",
			Quick: P(-1), Body: body(false, true), MinOutcomes: 50, NoSleep: true},
	}
	sdrive.Main("model_checking", scens, []string{
		"the status channel is a scheduler channel with Go's semantics (a non-blocking send succeeds only if a receiver is already parked)",
		"call sequences are bounded to 3 (thorough: 4) calls of 4 bytes; the wrapped writer's behaviours are {full, short (n<len, nil), failing (1, err)}",
	})
}
