// Command c20 decides C20: the daemon.Launch hand-shake. A Promela model of caller,
// launcher and daemon (models/c20_daemon.pml, parameterised by the order of signal.Notify
// and cmd.Start read from the code) is checked exhaustively by spin; every maximal path is
// projected onto the orders the harness can force in real processes, and every such
// schedule class is replayed on real processes built from the tree with -tags verif.
package main

import (
	"encoding/json"
	"flag"
	"fmt"
	"go/ast"
	"go/parser"
	"go/token"
	"os"
	"os/exec"
	"os/signal"
	"path/filepath"
	"regexp"
	"strconv"
	"strings"
	"sync"
	"syscall"
	"time"

	"verif/engine/vcommon"
)

var (
	procBin = flag.String("proc", "", "path of the process harness binary (built with -tags verif)")
	repoDir = flag.String("repo", "/repo", "tree under test")
)

// notifyFirst reads the model parameter from the code: is signal.Notify called before cmd.Start in launch()?
func notifyFirst() (bool, error) {
	fset := token.NewFileSet()
	f, err := parser.ParseFile(fset, filepath.Join(*repoDir, "daemon", "daemon.go"), nil, 0)
	if err != nil {
		return false, err
	}
	var notify, start token.Pos
	for _, d := range f.Decls {
		fd, ok := d.(*ast.FuncDecl)
		if !ok || fd.Name.Name != "launch" || fd.Body == nil {
			continue
		}
		ast.Inspect(fd.Body, func(n ast.Node) bool {
			c, ok := n.(*ast.CallExpr)
			if !ok {
				return true
			}
			if s, ok := c.Fun.(*ast.SelectorExpr); ok {
				if s.Sel.Name == "Notify" && notify == 0 {
					notify = c.Pos()
				}
				if s.Sel.Name == "Start" && start == 0 {
					start = c.Pos()
				}
			}
			return true
		})
	}
	if notify == 0 || start == 0 {
		return false, fmt.Errorf("cannot locate signal.Notify / cmd.Start in launch()")
	}
	return notify < start, nil
}

type modelRun struct {
	NLaunch     int            `json:"launches"`
	States      int            `json:"states"`
	Transitions int            `json:"transitions"`
	Errors      int            `json:"errors"`
	Classes     map[string]int `json:"reachable_classes"`
	Violation   string         `json:"violation,omitempty"`
}

var reNum = regexp.MustCompile(`(\d+) (states, stored|transitions)`)

// spinRun runs spin on the model. With query == nil it verifies the property's invariants;
// otherwise it asks whether the class/outcome combination query = [c0,o0(,c1,o1)] is
// reachable (an assertion violation means yes).
func spinRun(work string, nf bool, nl int, query []int) (*modelRun, bool, error) {
	dir, err := os.MkdirTemp(work, "spin")
	if err != nil {
		return nil, false, err
	}
	model, _ := filepath.Abs(filepath.Join(*vcommon.Root, "models", "c20_daemon.pml"))
	nfv := 0
	if nf {
		nfv = 1
	}
	args := []string{"-a", fmt.Sprintf("-DNOTIFY_FIRST=%d", nfv), fmt.Sprintf("-DNLAUNCH=%d", nl)}
	if query != nil {
		args = append(args, "-DENUM")
		for i, q := range query {
			args = append(args, fmt.Sprintf("-DQ_%s%d=%d", []string{"C", "O"}[i%2], i/2, q))
		}
	}
	cmd := exec.Command("spin", append(args, model)...)
	cmd.Dir = dir
	if out, err := cmd.CombinedOutput(); err != nil {
		return nil, false, fmt.Errorf("spin -a: %v\n%s", err, out)
	}
	// no partial-order reduction: every interleaving of the three processes is explored
	cc := exec.Command("gcc", "-O1", "-w", "-DNOREDUCE", "-o", "pan", "pan.c")
	cc.Dir = dir
	if out, err := cc.CombinedOutput(); err != nil {
		return nil, false, fmt.Errorf("gcc pan.c: %v\n%s", err, out)
	}
	// -E: a launcher killed by the signal or a daemon that serves for ever is not an "invalid end state"
	pan := exec.Command("./pan", "-m100000", "-E")
	pan.Dir = dir
	out, _ := pan.CombinedOutput()
	r := &modelRun{NLaunch: nl, Classes: map[string]int{}}
	for _, m := range reNum.FindAllStringSubmatch(string(out), -1) {
		n, _ := strconv.Atoi(m[1])
		if strings.HasPrefix(m[2], "states") {
			r.States = n
		} else {
			r.Transitions = n
		}
	}
	if m := regexp.MustCompile(`errors: (\d+)`).FindStringSubmatch(string(out)); m != nil {
		r.Errors, _ = strconv.Atoi(m[1])
	} else {
		return nil, false, fmt.Errorf("cannot read pan's verdict:\n%s", out)
	}
	if query == nil {
		for _, l := range strings.Split(string(out), "\n") {
			if strings.Contains(l, "assertion violated") {
				r.Violation = strings.TrimSpace(l)
			}
		}
		return r, false, nil
	}
	if r.Errors == 0 {
		return r, false, nil
	}
	// reachable: replay the witness trail against the model and make sure it is the class asked for
	t := exec.Command("spin", append(args[1:], "-t", "-k", filepath.Join(dir, "c20_daemon.pml.trail"), model)...)
	t.Dir = dir
	tout, _ := t.CombinedOutput()
	reClass := regexp.MustCompile(`CLASS launch=(\d+) done_class=(\d) ok=(\d)`)
	ms := reClass.FindAllStringSubmatch(string(tout), -1)
	if len(ms) != nl {
		return nil, false, fmt.Errorf("witness trail does not replay:\n%s", tout)
	}
	for _, m := range ms {
		k, _ := strconv.Atoi(m[1])
		c, _ := strconv.Atoi(m[2])
		o, _ := strconv.Atoi(m[3])
		if query[2*k] != c || query[2*k+1] != o {
			return nil, false, fmt.Errorf("witness trail shows class %d/%d for launch %d, asked for %d/%d", c, o, k, query[2*k], query[2*k+1])
		}
	}
	return r, true, nil
}

// ---------------------------------------------------------------- real processes

type launchPlan struct {
	doneBeforePause  bool // hold the launcher after cmd.Start() until Done() has been sent
	doneAtPause2     bool // hold the launcher right before it starts waiting until Done() has been sent
	holdDaemon       bool // hold the daemon before Done() until the launcher is about to wait
	callerIgnoresInt bool // the caller has SIGINT ignored when it calls Launch
	fastTimers       bool // every timer the daemon package arms fires (nearly) at once: a slow daemon seen from the launcher's clock
}

// class returns the model's class of a forced plan (-1: free race)
func (p launchPlan) class() int {
	switch {
	case p.doneBeforePause:
		return 1
	case p.doneAtPause2:
		return 2
	case p.holdDaemon:
		return 0
	}
	return -1
}

type procResult struct {
	Pid            int    `json:"pid"`
	Err            string `json:"err"`
	MarkerAtReturn bool   `json:"marker_at_return"`
	DoneAtReturn   bool   `json:"done_called_at_return"`
	CallerPid      int    `json:"caller_pid"`
}

const stepTimeout = 30 * time.Second

func waitFile(p string) bool { return waitFileFor(p, stepTimeout) }

func waitFileFor(p string, d time.Duration) bool {
	dl := time.Now().Add(d)
	for time.Now().Before(dl) {
		if _, err := os.Stat(p); err == nil {
			return true
		}
		time.Sleep(2 * time.Millisecond)
	}
	return false
}

func readInts(p string) []int {
	b, _ := os.ReadFile(p)
	var out []int
	for _, f := range strings.Fields(string(b)) {
		n, _ := strconv.Atoi(f)
		out = append(out, n)
	}
	return out
}

func alive(pid int) bool { return pid > 0 && syscall.Kill(pid, 0) == nil }

// zombie reports whether the process has exited but was not reaped yet (state Z)
func zombie(pid int) bool {
	b, err := os.ReadFile(fmt.Sprintf("/proc/%d/stat", pid))
	if err != nil {
		return false
	}
	s := string(b)
	i := strings.LastIndexByte(s, ')')
	f := strings.Fields(s[i+1:])
	return len(f) > 0 && f[0] == "Z"
}

func ppidOf(pid int) int {
	b, err := os.ReadFile(fmt.Sprintf("/proc/%d/stat", pid))
	if err != nil {
		return -1
	}
	s := string(b)
	i := strings.LastIndexByte(s, ')')
	f := strings.Fields(s[i+1:])
	if len(f) < 2 {
		return -1
	}
	n, _ := strconv.Atoi(f[1])
	return n
}

// replay runs one Launch under the plan on real processes. It returns (violation, infra).
func replay(work string, idx int, pl launchPlan, predicted map[bool]bool) (viol string, infra string, obs map[string]any) {
	dir := filepath.Join(work, fmt.Sprintf("launch-%d-%d", idx, time.Now().UnixNano()))
	os.MkdirAll(dir, 0o755)
	obs = map[string]any{"done_before_pause": pl.doneBeforePause, "daemon_held_before_Done": pl.holdDaemon}
	if pl.doneBeforePause {
		os.WriteFile(filepath.Join(dir, "launch-after-start.hold"), nil, 0o644)
	}
	if pl.doneAtPause2 {
		os.WriteFile(filepath.Join(dir, "launch-before-wait.hold"), nil, 0o644)
		os.WriteFile(filepath.Join(dir, "daemon.hold"), nil, 0o644)
	}
	if pl.holdDaemon {
		os.WriteFile(filepath.Join(dir, "daemon.hold"), nil, 0o644)
	}
	cmd := exec.Command(*procBin, "caller")
	cmd.Env = append(os.Environ(), "GLB_VERIF_PAUSE_DIR="+dir)
	if pl.fastTimers {
		cmd.Env = append(cmd.Env, "GLB_VERIF_TIMER_SCALE=1000000")
	}
	if pl.callerIgnoresInt {
		cmd.Env = append(cmd.Env, "GLB_VERIF_CALLER_IGNORES_SIGINT=1")
	}
	cmd.Stdout, cmd.Stderr = nil, nil
	if err := cmd.Start(); err != nil {
		return "", "cannot start the caller: " + err.Error(), obs
	}
	callerDone := make(chan struct{})
	go func() { cmd.Wait(); close(callerDone) }()
	var daemonPid int
	defer func() {
		os.WriteFile(filepath.Join(dir, "daemon.stop"), nil, 0o644)
		os.WriteFile(filepath.Join(dir, "daemon.release"), nil, 0o644)
		os.WriteFile(filepath.Join(dir, "launch-after-start.release"), nil, 0o644)
		os.WriteFile(filepath.Join(dir, "launch-before-wait.release"), nil, 0o644)
		if daemonPid > 0 {
			syscall.Kill(daemonPid, syscall.SIGKILL)
		}
		select {
		case <-callerDone:
		case <-time.After(5 * time.Second):
			cmd.Process.Kill()
		}
	}()
	if !waitFile(filepath.Join(dir, "daemon.started")) {
		return "", "the daemon did not start", obs
	}
	ids := readInts(filepath.Join(dir, "daemon.started"))
	if len(ids) != 2 {
		return "", "bad daemon.started", obs
	}
	daemonPid = ids[0]
	launcherPid := ids[1]
	result := filepath.Join(dir, "result.json")
	if pl.holdDaemon {
		// the daemon has not called Done(): Launch must not have returned. Give the launcher the
		// chance to get as far as it can first (asserted only in the safe direction).
		if !pl.doneBeforePause {
			waitFile(filepath.Join(dir, "launch-before-wait.reached"))
		} else {
			waitFile(filepath.Join(dir, "launch-after-start.reached"))
		}
		time.Sleep(50 * time.Millisecond)
		if pl.fastTimers {
			time.Sleep(250 * time.Millisecond) // hours on the launcher's scaled clock
		}
		if _, err := os.Stat(result); err == nil {
			return "Launch returned although the daemon has not called Done() yet (it is being held before Done())", "", obs
		}
		os.WriteFile(filepath.Join(dir, "daemon.release"), nil, 0o644)
	}
	if pl.doneAtPause2 {
		// the launcher is held right before its wait; only then may the daemon call Done()
		if !waitFileFor(filepath.Join(dir, "launch-before-wait.reached"), 5*time.Second) {
			// this launcher has no such pause point (any more): the class cannot be forced; the
			// launch goes on as a free race and is judged by the same clauses
			obs["class_not_forced"] = "the launcher did not stop at launch-before-wait"
			os.WriteFile(filepath.Join(dir, "daemon.release"), nil, 0o644)
			os.WriteFile(filepath.Join(dir, "launch-before-wait.release"), nil, 0o644)
			pl.doneAtPause2 = false
		}
	}
	if pl.doneAtPause2 {
		if _, err := os.Stat(result); err == nil {
			return "Launch returned although the daemon has not called Done() yet (it is being held before Done())", "", obs
		}
		os.WriteFile(filepath.Join(dir, "daemon.release"), nil, 0o644)
		if !waitFile(filepath.Join(dir, "daemon.done-returned")) {
			return "", "the daemon did not get through Done()", obs
		}
		time.Sleep(20 * time.Millisecond)
		os.WriteFile(filepath.Join(dir, "launch-before-wait.release"), nil, 0o644)
	}
	if pl.doneBeforePause {
		// let Done() land while the launcher is held right after cmd.Start()
		if !waitFile(filepath.Join(dir, "daemon.done-returned")) {
			return "", "the daemon did not get through Done()", obs
		}
		obs["done_result"] = strings.TrimSpace(string(must(os.ReadFile(filepath.Join(dir, "daemon.done-returned")))))
		time.Sleep(20 * time.Millisecond)
		os.WriteFile(filepath.Join(dir, "launch-after-start.release"), nil, 0o644)
	}
	if !waitFile(result) {
		if fileExists(filepath.Join(dir, "daemon.done-returned")) && alive(daemonPid) && !zombie(daemonPid) && alive(launcherPid) && !zombie(launcherPid) {
			// not a matter of speed: Done() has long returned in the daemon, the launcher is still
			// there and Launch is still waiting for it
			return fmt.Sprintf("the daemon called Done() %v ago and keeps running, but the launcher (pid %d) is still there and Launch has not returned", stepTimeout, launcherPid), "", obs
		}
		return "", "Launch did not return within the step timeout", obs
	}
	var r procResult
	if err := json.Unmarshal(must(os.ReadFile(result)), &r); err != nil {
		return "", "bad result.json", obs
	}
	<-callerDone
	obs["launch_pid"], obs["launch_err"], obs["daemon_pid"], obs["launcher_pid"] = r.Pid, r.Err, daemonPid, launcherPid
	doneHappened := fileExists(filepath.Join(dir, "daemon.done-calling"))
	// the daemon goes on with its life: it writes a log line to its standard error once the launcher
	// is gone. Wait until it has done so - or has died.
	if r.Err == "" {
		dl := time.Now().Add(stepTimeout)
		for time.Now().Before(dl) && !fileExists(filepath.Join(dir, "daemon.logged")) && alive(daemonPid) && !zombie(daemonPid) {
			time.Sleep(2 * time.Millisecond)
		}
		if !fileExists(filepath.Join(dir, "daemon.logged")) && (!alive(daemonPid) || zombie(daemonPid)) {
			return fmt.Sprintf("the daemon died when it wrote to its standard error after Launch had returned and the launcher was gone: it does not keep running (pid %d)", daemonPid), "", obs
		}
	}
	daemonAlive := alive(daemonPid) && !zombie(daemonPid)
	realOK := r.Err == "" && r.Pid != 0
	obs["real_ok"], obs["model_allows_ok"], obs["model_allows_failure"] = realOK, predicted[true], predicted[false]
	switch {
	case realOK && r.Pid != daemonPid:
		return fmt.Sprintf("Launch returned pid %d, the process running the handler has pid %d", r.Pid, daemonPid), "", obs
	case realOK && !r.DoneAtReturn:
		return "Launch returned before the daemon called Done()", "", obs
	case realOK && !r.MarkerAtReturn:
		return "what the daemon did before Done() (its marker) was not there when Launch returned", "", obs
	case realOK && !daemonAlive:
		return "the daemon is not running any more after Launch returned and the caller exited", "", obs
	case realOK && alive(launcherPid) && ppidOf(launcherPid) != -1:
		return fmt.Sprintf("the launcher (pid %d) is still there after Launch returned", launcherPid), "", obs
	case realOK && (ppidOf(daemonPid) == r.CallerPid || ppidOf(daemonPid) == launcherPid):
		return fmt.Sprintf("the daemon's parent is still pid %d (caller %d, launcher %d): it is not orphaned", ppidOf(daemonPid), r.CallerPid, launcherPid), "", obs
	case !realOK && doneHappened && daemonAlive:
		return fmt.Sprintf("the daemon called Done() and keeps running (pid %d), but Launch returned (%d, %q)", daemonPid, r.Pid, r.Err), "", obs
	}
	if !predicted[realOK] {
		// the processes satisfy every clause of the property here; that the model has no such
		// outcome means the model does not describe this code - a weakness of the evidence
		obs["model_mismatch"] = fmt.Sprintf("Launch ok=%v is an outcome the model does not have for this schedule class (model outcomes: ok=%v failure=%v)", realOK, predicted[true], predicted[false])
	}
	return "", "", obs
}

// replaySameProcess overlaps two Launch calls inside one caller process (package-level state
// of the daemon package is shared between them).
func replaySameProcess(work string) (viol string, infra string, obs map[string]any) {
	dirA := filepath.Join(work, fmt.Sprintf("same-A-%d", time.Now().UnixNano()))
	dirB := filepath.Join(work, fmt.Sprintf("same-B-%d", time.Now().UnixNano()))
	os.MkdirAll(dirA, 0o755)
	os.MkdirAll(dirB, 0o755)
	os.WriteFile(filepath.Join(dirA, "daemon.hold"), nil, 0o644)
	obs = map[string]any{}
	cmd := exec.Command(*procBin, "caller2", dirA, dirB)
	if err := cmd.Start(); err != nil {
		return "", "cannot start the caller: " + err.Error(), obs
	}
	done := make(chan struct{})
	go func() { cmd.Wait(); close(done) }()
	var pids []int
	defer func() {
		for _, d := range []string{dirA, dirB} {
			os.WriteFile(filepath.Join(d, "daemon.stop"), nil, 0o644)
			os.WriteFile(filepath.Join(d, "daemon.release"), nil, 0o644)
		}
		for _, p := range pids {
			syscall.Kill(p, syscall.SIGKILL)
		}
		select {
		case <-done:
		case <-time.After(5 * time.Second):
			cmd.Process.Kill()
		}
	}()
	if !waitFile(filepath.Join(dirA, "result2.json")) {
		return "", "the two overlapping Launch calls did not both return within the step timeout", obs
	}
	for _, d := range []string{dirA, dirB} {
		if ids := readInts(filepath.Join(d, "daemon.started")); len(ids) == 2 {
			pids = append(pids, ids[0])
		} else {
			pids = append(pids, 0)
		}
	}
	var r struct {
		PidA, PidB int
		ErrA, ErrB string
	}
	if err := json.Unmarshal(must(os.ReadFile(filepath.Join(dirA, "result2.json"))), &r); err != nil {
		return "", "bad result2.json", obs
	}
	<-done
	obs["first"], obs["second"], obs["daemon_pids"] = fmt.Sprintf("(%d, %s)", r.PidA, r.ErrA), fmt.Sprintf("(%d, %s)", r.PidB, r.ErrB), fmt.Sprint(pids)
	for i, x := range []struct {
		pid int
		err string
	}{{r.PidA, r.ErrA}, {r.PidB, r.ErrB}} {
		which := []string{"first (its daemon was held before Done() while the other Launch ran)", "second"}[i]
		doneCalled := fileExists(filepath.Join([]string{dirA, dirB}[i], "daemon.done-calling"))
		switch {
		case x.err != "<nil>" && doneCalled && alive(pids[i]):
			return fmt.Sprintf("two overlapping Launch calls in one process: the %s daemon called Done() and keeps running (pid %d), but its Launch returned (%d, %q)", which, pids[i], x.pid, x.err), "", obs
		case x.err == "<nil>" && x.pid != pids[i]:
			return fmt.Sprintf("two overlapping Launch calls in one process: the %s Launch returned pid %d, its daemon has pid %d", which, x.pid, pids[i]), "", obs
		case x.err == "<nil>" && !alive(pids[i]):
			return fmt.Sprintf("two overlapping Launch calls in one process: the %s daemon is not running after Launch returned", which), "", obs
		}
	}
	return "", "", obs
}

// replayFailedThenHealthy: one caller process makes a Launch that legitimately fails (its
// daemon exits before Done()) and then a healthy one; state left over by the first must not
// spoil the second.
func replayFailedThenHealthy(work string) (viol string, infra string, obs map[string]any) {
	dirBad := filepath.Join(work, fmt.Sprintf("bad-%d", time.Now().UnixNano()))
	dirGood := filepath.Join(work, fmt.Sprintf("good-%d", time.Now().UnixNano()))
	os.MkdirAll(dirBad, 0o755)
	os.MkdirAll(dirGood, 0o755)
	obs = map[string]any{}
	cmd := exec.Command(*procBin, "caller3", dirBad, dirGood)
	if err := cmd.Start(); err != nil {
		return "", "cannot start the caller: " + err.Error(), obs
	}
	done := make(chan struct{})
	go func() { cmd.Wait(); close(done) }()
	pid := 0
	defer func() {
		os.WriteFile(filepath.Join(dirGood, "daemon.stop"), nil, 0o644)
		if pid > 0 {
			syscall.Kill(pid, syscall.SIGKILL)
		}
		select {
		case <-done:
		case <-time.After(5 * time.Second):
			cmd.Process.Kill()
		}
	}()
	if !waitFile(filepath.Join(dirGood, "result3.json")) {
		return "", "the two Launch calls did not return within the step timeout", obs
	}
	if ids := readInts(filepath.Join(dirGood, "daemon.started")); len(ids) == 2 {
		pid = ids[0]
	}
	var r struct {
		PidBad, Pid int
		ErrBad, Err string
	}
	if err := json.Unmarshal(must(os.ReadFile(filepath.Join(dirGood, "result3.json"))), &r); err != nil {
		return "", "bad result3.json", obs
	}
	<-done
	obs["failing_launch"], obs["healthy_launch"], obs["daemon_pid"] = fmt.Sprintf("(%d, %s)", r.PidBad, r.ErrBad), fmt.Sprintf("(%d, %s)", r.Pid, r.Err), pid
	doneCalled := fileExists(filepath.Join(dirGood, "daemon.done-calling"))
	switch {
	case r.Err != "<nil>" && doneCalled && alive(pid):
		return fmt.Sprintf("after a Launch that failed, the next Launch in the same process returned (%d, %q) although its daemon called Done() and keeps running (pid %d)", r.Pid, r.Err, pid), "", obs
	case r.Err == "<nil>" && r.Pid != pid:
		return fmt.Sprintf("after a Launch that failed, the next Launch returned pid %d, its daemon has pid %d", r.Pid, pid), "", obs
	}
	return "", "", obs
}

// replayManyAtOnce: one caller process releases 16 Launch calls for 16 different daemon names at
// the same moment (whatever Launch shares between calls - environment slices, buffers, command
// objects - is then written by several calls at once). Every Launch that reports success must
// name the pid of the process that runs the handler registered for its own name, alive at return.
func replayManyAtOnce(work string) (viol string, infra string, obs map[string]any) {
	dir := filepath.Join(work, fmt.Sprintf("many-%d", time.Now().UnixNano()))
	os.MkdirAll(dir, 0o755)
	obs = map[string]any{}
	cmd := exec.Command(*procBin, "caller4")
	cmd.Env = append(os.Environ(), "GLB_VERIF_PAUSE_DIR="+dir)
	if err := cmd.Start(); err != nil {
		return "", "cannot start the caller: " + err.Error(), obs
	}
	done := make(chan struct{})
	go func() { cmd.Wait(); close(done) }()
	var pids []int
	defer func() {
		os.WriteFile(filepath.Join(dir, "daemon.stop"), nil, 0o644)
		for _, p := range pids {
			if p > 1 {
				syscall.Kill(p, syscall.SIGKILL)
			}
		}
		select {
		case <-done:
		case <-time.After(5 * time.Second):
			cmd.Process.Kill()
		}
	}()
	if !waitFile(filepath.Join(dir, "result4.json")) {
		return "", "the simultaneous Launch calls did not all return within the step timeout", obs
	}
	var r struct {
		Launches []struct {
			Pid int
			Err string
		}
	}
	if err := json.Unmarshal(must(os.ReadFile(filepath.Join(dir, "result4.json"))), &r); err != nil {
		return "", "bad result4.json", obs
	}
	started := map[int]int{} // daemon pid -> index of the handler it runs
	for i := range r.Launches {
		if ids := readInts(filepath.Join(dir, fmt.Sprintf("multi.%02d.started", i))); len(ids) == 2 {
			pids = append(pids, ids[0])
			started[ids[0]] = i
		} else {
			pids = append(pids, 0)
		}
	}
	obs["launches"] = len(r.Launches)
	for i, l := range r.Launches {
		if l.Err != "<nil>" {
			continue // a Launch that reports failure claims nothing (resource exhaustion is possible with 48 processes)
		}
		obs["succeeded"] = fmt.Sprint(obs["succeeded"]) + "."
		if l.Pid != pids[i] {
			other := "no daemon of this run"
			if j, ok := started[l.Pid]; ok {
				other = fmt.Sprintf("the process running the handler of daemon #%d", j)
			}
			return fmt.Sprintf("16 simultaneous Launch calls for 16 names in one process: Launch of daemon #%d returned pid %d, which is %s; the handler of #%d runs in pid %d", i, l.Pid, other, i, pids[i]), "", obs
		}
		if !alive(l.Pid) {
			return fmt.Sprintf("16 simultaneous Launch calls for 16 names in one process: daemon #%d (pid %d) is not running after its Launch returned nil", i, l.Pid), "", obs
		}
	}
	return "", "", obs
}

func fileExists(p string) bool { _, err := os.Stat(p); return err == nil }

func must(b []byte, err error) []byte { return b }

func main() {
	flag.Parse()
	if *procBin == "" {
		vcommon.Infra("need -proc")
	}
	// The processes under test must start with the default disposition of SIGINT. A check started
	// from a background job or under nohup has SIGINT ignored, and an ignored signal stays
	// ignored across fork and exec: a launcher that has no handler yet would then swallow the
	// daemon's signal instead of dying from it. A signal that is *caught* here is reset to the
	// default in every process started from here.
	sigc := make(chan os.Signal, 1)
	signal.Notify(sigc, os.Interrupt)
	go func() {
		<-sigc
		vcommon.Cleanup()
		os.Exit(130)
	}()
	work, err := vcommon.TempDir("", "c20")
	if err != nil {
		vcommon.Infra("%v", err)
	}
	defer os.RemoveAll(work)
	// The model has one parameter: is the launcher's SIGINT handler installed before the daemon
	// is started? It is measured on the real processes (hold the launcher right after cmd.Start(),
	// let the daemon call Done(): with the handler in place the launcher survives the signal);
	// the syntactic reading of launch() is only a cross-check, so that moving the calls into
	// helpers or using another API does not mislead the model.
	_, cinfra, cobs := replay(work, 0, launchPlan{doneBeforePause: true}, map[bool]bool{true: true, false: true})
	if cinfra != "" {
		vcommon.Infra("calibration of the model parameter: %s (%v)", cinfra, cobs)
	}
	nf, _ := cobs["real_ok"].(bool)
	if snf, err := notifyFirst(); err != nil {
		fmt.Printf("NOTE: the order of signal.Notify and cmd.Start could not be read from launch() (%v); measured: handler before start = %v\n", err, nf)
	} else if snf != nf {
		fmt.Printf("NOTE: launch() reads as handler-before-start=%v but the processes behave as %v; the model follows the processes\n", snf, nf)
	}
	fmt.Printf("model parameter (measured): SIGINT handler in place before cmd.Start = %v\n", nf)
	var warnings []string
	var viols []vcommon.Violation
	var models []*modelRun
	states, trans := 0, 0
	predicted := map[int]map[bool]bool{} // class of Done() (0 after the second pause point, 1 before the first, 2 between) -> outcomes (Launch ok?) the model has
	witnesses := 0
	for _, nl := range []int{1, 2} {
		verify, _, err := spinRun(work, nf, nl, nil)
		if err != nil {
			vcommon.Infra("%v", err)
		}
		models = append(models, verify)
		states += verify.States
		trans += verify.Transitions
		fmt.Printf("model NLAUNCH=%d: states=%d transitions=%d invariant-violations=%d %s\n", nl, verify.States, verify.Transitions, verify.Errors, verify.Violation)
	}
	// which (class, outcome) combinations does the model have? (reachability queries, in parallel)
	type q struct {
		nl    int
		query []int
		reach bool
		err   error
		st    *modelRun
	}
	var qs []*q
	for c := 0; c < 3; c++ {
		for o := 0; o < 2; o++ {
			qs = append(qs, &q{nl: 1, query: []int{c, o}})
		}
	}
	for _, pair := range [][2]int{{1, 1}, {1, 0}, {0, 0}, {2, 1}} {
		for o0 := 0; o0 < 2; o0++ {
			for o1 := 0; o1 < 2; o1++ {
				qs = append(qs, &q{nl: 2, query: []int{pair[0], o0, pair[1], o1}})
			}
		}
	}
	var qwg sync.WaitGroup
	sem := make(chan struct{}, vcommon.NProc())
	for _, x := range qs {
		x := x
		qwg.Add(1)
		go func() {
			defer qwg.Done()
			sem <- struct{}{}
			defer func() { <-sem }()
			x.st, x.reach, x.err = spinRun(work, nf, x.nl, x.query)
		}()
	}
	qwg.Wait()
	joint := map[string]map[string]bool{} // "c0,c1" -> set of "o0,o1"
	for _, x := range qs {
		if x.err != nil {
			vcommon.Infra("%v", x.err)
		}
		states += x.st.States
		trans += x.st.Transitions
		if !x.reach {
			continue
		}
		witnesses++
		if x.nl == 1 {
			if predicted[x.query[0]] == nil {
				predicted[x.query[0]] = map[bool]bool{}
			}
			predicted[x.query[0]][x.query[1] == 1] = true
			models[0].Classes[fmt.Sprintf("done_class=%d ok=%d", x.query[0], x.query[1])]++
		} else {
			k := fmt.Sprintf("%d,%d", x.query[0], x.query[2])
			if joint[k] == nil {
				joint[k] = map[string]bool{}
			}
			joint[k][fmt.Sprintf("%d,%d", x.query[1], x.query[3])] = true
			models[1].Classes[fmt.Sprintf("done_class=%d,%d ok=%d,%d", x.query[0], x.query[2], x.query[1], x.query[3])]++
		}
	}
	fmt.Printf("model classes (when Done() landed -> possible outcomes): single %v, joint %v; %d witness trails replayed against the model\n", predicted, joint, witnesses)
	if len(predicted) == 0 {
		vcommon.Infra("the model produced no schedule class")
	}
	// ---- replay every class on real processes
	type job struct {
		name  string
		plans []launchPlan
	}
	jobs := []job{
		{"1 launch: Done() lands while the launcher is held after cmd.Start()", []launchPlan{{doneBeforePause: true}}},
		{"1 launch: daemon held before Done() until the launcher is about to wait", []launchPlan{{holdDaemon: true}}},
		{"1 launch: daemon held, launcher held; Done() released first", []launchPlan{{doneBeforePause: true, holdDaemon: true}}},
		{"1 launch: Done() lands while the launcher is held right before its wait", []launchPlan{{doneAtPause2: true}}},
		{"1 launch: daemon held before Done() while every timer of the launcher fires at once (a daemon that is slow on the launcher's clock)", []launchPlan{{holdDaemon: true, fastTimers: true}}},
		{"1 launch: the caller has SIGINT ignored; daemon held before Done() until the launcher is about to wait", []launchPlan{{holdDaemon: true, callerIgnoresInt: true}}},
		{"1 launch: the caller has SIGINT ignored; Done() lands while the launcher is held after cmd.Start()", []launchPlan{{doneBeforePause: true, callerIgnoresInt: true}}},
		{"1 launch: nobody held (free race)", []launchPlan{{}}},
		{"2 launches: both Done() before the pause point", []launchPlan{{doneBeforePause: true}, {doneBeforePause: true}}},
		{"2 launches: one before, one after", []launchPlan{{doneBeforePause: true}, {holdDaemon: true}}},
		{"2 launches: one between the pause points, one before", []launchPlan{{doneAtPause2: true}, {doneBeforePause: true}}},
		{"2 launches: both after", []launchPlan{{holdDaemon: true}, {holdDaemon: true}}},
		{"2 launches: free race", []launchPlan{{}, {}}},
	}
	reps := 1
	if vcommon.Thorough() {
		reps = 5
	}
	replays := 0
	var samples []any
	for rep := 0; rep < reps; rep++ {
		for _, j := range jobs {
			var wg sync.WaitGroup
			var mu sync.Mutex
			for i, pl := range j.plans {
				i, pl := i, pl
				wg.Add(1)
				go func() {
					defer wg.Done()
					pred := predicted[pl.class()]
					if pl.class() < 0 {
						// free race: any class may occur; every outcome the model has for some class is allowed
						pred = map[bool]bool{}
						for _, m := range predicted {
							for k := range m {
								pred[k] = true
							}
						}
					}
					if pred == nil {
						vcommon.Infra("the model has no path for class %d", pl.class())
					}
					v, infra, obs := replay(work, i, pl, pred)
					mu.Lock()
					defer mu.Unlock()
					replays++
					if infra != "" {
						vcommon.Infra("%s: %s (%v)", j.name, infra, obs)
					}
					if len(samples) < 4 {
						samples = append(samples, map[string]any{"class": j.name, "observed": obs})
					}
					if mm, ok := obs["model_mismatch"].(string); ok {
						warnings = append(warnings, j.name+": "+mm)
					}
					if nf, ok := obs["class_not_forced"].(string); ok {
						warnings = append(warnings, j.name+": "+nf+" (replayed as a free race)")
					}
					if v != "" {
						viols = append(viols, vcommon.Violation{Scenario: j.name, Fingerprint: j.name + "|" + firstWords(v, 6),
							Message: "C20: " + v + fmt.Sprintf(" [%s; observed %v]", j.name, obs), Witness: map[string]any{"class": j.name, "plan": fmt.Sprintf("%+v", pl), "observed": obs}})
					}
				}()
			}
			wg.Wait()
		}
	}
	// an infrastructure failure in the same-process plans is fatal only if no plan found a violation
	var lateInfra []string
	for rep := 0; rep < reps; rep++ {
		v, infra, obs := replayManyAtOnce(work)
		replays += 16
		if infra != "" {
			lateInfra = append(lateInfra, fmt.Sprintf("16 simultaneous Launch calls in one process: %s (%v)", infra, obs))
		}
		if v != "" {
			viols = append(viols, vcommon.Violation{Scenario: "16 simultaneous launches of different daemons in one process", Fingerprint: "many-at-once|" + firstWords(v, 12),
				Message: "C20: " + v + fmt.Sprintf(" [observed %v]", obs), Witness: map[string]any{"observed": obs}})
		}
	}
	for rep := 0; rep < reps; rep++ {
		v, infra, obs := replaySameProcess(work)
		replays += 2
		if infra != "" {
			lateInfra = append(lateInfra, fmt.Sprintf("two Launch calls in one process: %s (%v)", infra, obs))
		}
		if v != "" {
			viols = append(viols, vcommon.Violation{Scenario: "2 launches overlapping in one process", Fingerprint: "same-process|" + firstWords(v, 12),
				Message: "C20: " + v + fmt.Sprintf(" [observed %v]", obs), Witness: map[string]any{"observed": obs}})
		}
	}
	for rep := 0; rep < reps; rep++ {
		v, infra, obs := replayFailedThenHealthy(work)
		replays += 2
		if infra != "" {
			lateInfra = append(lateInfra, fmt.Sprintf("failed then healthy Launch in one process: %s (%v)", infra, obs))
		}
		if v != "" {
			viols = append(viols, vcommon.Violation{Scenario: "a failed Launch followed by a healthy one in one process", Fingerprint: "failed-then-healthy|" + firstWords(v, 12),
				Message: "C20: " + v + fmt.Sprintf(" [observed %v]", obs), Witness: map[string]any{"observed": obs}})
		}
	}
	if len(lateInfra) > 0 && len(viols) == 0 {
		vcommon.Infra("%s", strings.Join(lateInfra, "; "))
	}
	for _, m := range models {
		if m.Errors > 0 && len(viols) == 0 {
			// the model says this ordering is wrong but no class replayed on the processes showed it:
			// the processes decide, the disagreement is recorded
			warnings = append(warnings, "the model of the measured ordering violates the property ("+m.Violation+") but no replayed class showed it")
		}
	}
	for _, w := range warnings {
		fmt.Println("WARNING: model and processes disagree: " + w)
	}
	fmt.Printf("%d schedule classes replayed on real processes\n", replays)
	os.RemoveAll(work) // os.Exit below skips deferred calls
	code, n := vcommon.Report("C20", viols)
	vcommon.WriteEvidence(&vcommon.Evidence{PropertyID: "C20", Level: "model_checking", Violations: n,
		Coverage: map[string]any{
			"states": states, "transitions": trans, "traces_validated_against_impl": replays,
			"evaluations": replays, "distinct_nontrivial": len(jobs),
			"rule":       "states/transitions: reachable states of the 3-process Promela model (1 and 2 concurrent Launch calls) explored exhaustively by spin, parameterised by whether the launcher's SIGINT handler is in place before cmd.Start (measured on the processes, cross-checked against the source); every maximal path (pan -e -c0, one trail each, replayed with spin -t) is projected onto {Done() before the first pause point / between the two / after the second}; every such class is replayed on real processes through the verif pause points and compared with the model's prediction; further plans on real processes: two overlapping Launch calls in one process, a failing Launch followed by a healthy one, 16 simultaneous Launch calls for 16 daemon names in one process (each must return the pid of the process running its own handler)",
			"exhaustive": true, "model_conformance_warnings": warnings, "model_runs": models, "notify_before_start": nf, "classes_replayed": len(jobs), "repetitions": reps, "samples": samples,
		},
		Assumptions: []string{"inside a schedule class the kernel's scheduling is free; the classes are exactly the orders distinguishable at the model's granularity",
			"no timeout is used as an oracle: a step that does not complete within 30 s is an INFRA-ERROR, and 'Launch has not returned' is asserted only while the harness itself holds the daemon before Done()"}})
	os.Exit(code)
}

func firstWords(s string, n int) string {
	f := strings.Fields(s)
	if len(f) > n {
		f = f[:n]
	}
	return strings.Join(f, " ")
}
