// Command proc is the real-process side of the C20 check: the same binary plays caller,
// launcher and daemon (the last two through daemon.Run in init, as the package documents).
// Built with -tags verif so that the pause points in daemon.launch are live.
package main

import (
	"encoding/json"
	"fmt"
	"os"
	"os/signal"
	"path/filepath"
	"sync"
	"time"

	"github.com/whoisnian/glb/daemon"
)

const name = "c20-daemon"

func dir() string { return os.Getenv("GLB_VERIF_PAUSE_DIR") }

// touch creates the file atomically (the coordinator polls for its existence and reads it)
func touch(n, content string) {
	tmp := filepath.Join(dir(), "."+n+".tmp")
	os.WriteFile(tmp, []byte(content), 0o644)
	os.Rename(tmp, filepath.Join(dir(), n))
}

func exists(n string) bool { _, err := os.Stat(filepath.Join(dir(), n)); return err == nil }

func waitFor(n string) {
	for i := 0; i < 60000 && !exists(n); i++ {
		time.Sleep(time.Millisecond)
	}
}

func daemonMain() {
	bornTo := os.Getppid()
	touch("daemon.started", fmt.Sprintf("%d %d", os.Getpid(), os.Getppid()))
	touch("marker", "written before Done()")
	if exists("daemon.hold") {
		waitFor("daemon.release")
	}
	if os.Getppid() != bornTo || bornTo <= 1 {
		// the launcher has gone without waiting for Done(): Done() would signal whoever adopted
		// this process (init), which a test must not do. The coordinator has seen Launch return.
		touch("daemon.launcher-gone-before-done", "")
		for i := 0; i < 60000 && !exists("daemon.stop"); i++ {
			time.Sleep(time.Millisecond)
		}
		return
	}
	touch("daemon.done-calling", "")
	launcher := os.Getppid()
	err := daemon.Done()
	touch("daemon.done-returned", fmt.Sprint(err))
	// a daemon normally logs: once the launcher is gone, write to the inherited standard error
	for i := 0; i < 10000 && os.Getppid() == launcher; i++ {
		time.Sleep(time.Millisecond)
	}
	fmt.Fprintln(os.Stderr, "c20 daemon: log line written after Done() and after the launcher has gone")
	touch("daemon.logged", "")
	// keep serving until told to stop (or for a minute at most)
	for i := 0; i < 60000 && !exists("daemon.stop"); i++ {
		time.Sleep(time.Millisecond)
	}
}

const badName = "c20-bad-daemon"

// badMain fails before it ever calls Done(): Launch must report an error for it
func badMain() {
	touch("bad.started", fmt.Sprint(os.Getpid()))
	os.Exit(3)
}

// nMulti daemons with names of their own, launched at the same moment from one process: every
// Launch must come back with the pid of the process that runs the handler of ITS name
const nMulti = 16

func multiName(i int) string { return fmt.Sprintf("c20-multi-%02d", i) }

func multiMain(i int) func() {
	return func() {
		bornTo := os.Getppid()
		touch(fmt.Sprintf("multi.%02d.started", i), fmt.Sprintf("%d %d", os.Getpid(), os.Getppid()))
		if os.Getppid() == bornTo && bornTo > 1 {
			daemon.Done()
		}
		for k := 0; k < 60000 && !exists("daemon.stop"); k++ {
			time.Sleep(time.Millisecond)
		}
	}
}

// caller4: nMulti Launch calls released together by a barrier, each for a different name
func caller4() {
	type out struct {
		Pid int    `json:"pid"`
		Err string `json:"err"`
	}
	res := make([]out, nMulti)
	var wg sync.WaitGroup
	gate := make(chan struct{})
	for i := 0; i < nMulti; i++ {
		wg.Add(1)
		go func(i int) {
			defer wg.Done()
			<-gate
			pid, err := daemon.Launch(multiName(i))
			res[i] = out{pid, fmt.Sprint(err)}
		}(i)
	}
	close(gate)
	wg.Wait()
	data, _ := json.Marshal(map[string]any{"launches": res, "caller_pid": os.Getpid()})
	os.WriteFile(filepath.Join(dir(), "result4.json.tmp"), data, 0o644)
	os.Rename(filepath.Join(dir(), "result4.json.tmp"), filepath.Join(dir(), "result4.json"))
}

func init() {
	for i := 0; i < nMulti; i++ {
		daemon.Register(multiName(i), multiMain(i))
	}
	daemon.Register(badName, badMain)
	daemon.Register(name, daemonMain)
	if daemon.Run() {
		os.Exit(0)
	}
}

type result struct {
	Pid            int    `json:"pid"`
	Err            string `json:"err"`
	MarkerAtReturn bool   `json:"marker_at_return"`
	DoneAtReturn   bool   `json:"done_called_at_return"`
	CallerPid      int    `json:"caller_pid"`
}

// caller2 runs two Launch calls that overlap inside ONE process: the first daemon is held
// before Done() (its directory contains daemon.hold), the second Launch starts once the first
// daemon is running and goes through completely, then the first daemon is released.
func caller2(dirA, dirB string) {
	type out struct {
		pid int
		err error
	}
	resA := make(chan out, 1)
	os.Setenv("GLB_VERIF_PAUSE_DIR", dirA)
	go func() {
		pid, err := daemon.Launch(name)
		resA <- out{pid, err}
	}()
	// the first Launch has certainly read the environment once its daemon is running
	for i := 0; i < 60000; i++ {
		if _, err := os.Stat(filepath.Join(dirA, "daemon.started")); err == nil {
			break
		}
		time.Sleep(time.Millisecond)
	}
	os.Setenv("GLB_VERIF_PAUSE_DIR", dirB)
	pidB, errB := daemon.Launch(name)
	os.WriteFile(filepath.Join(dirA, "daemon.release"), nil, 0o644)
	a := <-resA
	r := map[string]any{"pidA": a.pid, "errA": fmt.Sprint(a.err), "pidB": pidB, "errB": fmt.Sprint(errB), "caller_pid": os.Getpid()}
	data, _ := json.Marshal(r)
	os.WriteFile(filepath.Join(dirA, "result2.json.tmp"), data, 0o644)
	os.Rename(filepath.Join(dirA, "result2.json.tmp"), filepath.Join(dirA, "result2.json"))
}

// caller3: a Launch that legitimately fails, then a healthy one, in the same process
func caller3(dirBad, dirGood string) {
	os.Setenv("GLB_VERIF_PAUSE_DIR", dirBad)
	pidBad, errBad := daemon.Launch(badName)
	os.Setenv("GLB_VERIF_PAUSE_DIR", dirGood)
	pid, err := daemon.Launch(name)
	r := map[string]any{"pidBad": pidBad, "errBad": fmt.Sprint(errBad), "pid": pid, "err": fmt.Sprint(err), "caller_pid": os.Getpid()}
	data, _ := json.Marshal(r)
	os.WriteFile(filepath.Join(dirGood, "result3.json.tmp"), data, 0o644)
	os.Rename(filepath.Join(dirGood, "result3.json.tmp"), filepath.Join(dirGood, "result3.json"))
}

func main() {
	if len(os.Args) == 4 && os.Args[1] == "caller3" {
		caller3(os.Args[2], os.Args[3])
		return
	}
	if len(os.Args) == 2 && os.Args[1] == "caller4" {
		caller4()
		return
	}
	if len(os.Args) == 4 && os.Args[1] == "caller2" {
		caller2(os.Args[2], os.Args[3])
		return
	}
	if len(os.Args) < 2 || os.Args[1] != "caller" {
		fmt.Fprintln(os.Stderr, "usage: proc caller   (with GLB_VERIF_PAUSE_DIR set)")
		os.Exit(2)
	}
	if os.Getenv("GLB_VERIF_CALLER_IGNORES_SIGINT") != "" {
		// a caller that does not want to be interrupted (or one started as a background job): the
		// launcher and the daemon inherit the ignored disposition
		signal.Ignore(os.Interrupt)
	}
	pid, err := daemon.Launch(name)
	r := result{Pid: pid, MarkerAtReturn: exists("marker"), DoneAtReturn: exists("daemon.done-calling"), CallerPid: os.Getpid()}
	if err != nil {
		r.Err = err.Error()
	}
	data, _ := json.Marshal(r)
	os.WriteFile(filepath.Join(dir(), "result.json.tmp"), data, 0o644)
	os.Rename(filepath.Join(dir(), "result.json.tmp"), filepath.Join(dir(), "result.json"))
}
