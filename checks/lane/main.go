// Command lane decides C06, C07, C08 and C14: the real tasklane package, instrumented,
// is run under the controlled scheduler; every interleaving of producers, queue
// goroutines, workers, canceller, poller and timers within the deviation bound is
// executed and checked.
package main

import (
	"errors"
	"fmt"
	"reflect"
	"runtime"
	"sort"
	"strings"

	"github.com/whoisnian/glb/tasklane"
	"verif/engine/sdrive"
	"verif/engine/shim/vatomic"
	"verif/engine/shim/vctx"
	"verif/engine/shim/vsched"
	"verif/engine/vcommon"
)

// owns says whether the property being decided (-id) is one of those a clause of the oracle
// belongs to. The four properties share scenarios and one harness, but each check reports
// only what its own statement says.
func owns(props ...string) bool {
	for _, p := range props {
		if p == *vcommon.ID {
			return true
		}
	}
	return false
}

func failFor(msg string, props ...string) {
	if owns(props...) {
		vsched.Fail(msg)
	}
}

// exactlyOnce lists the properties that own "started exactly once" in a scenario: C06, and
// C14 ("every other accepted task is still started exactly once") where tasks panic.
func (sp *spec) exactlyOnce(more ...string) []string {
	out := append([]string{"C06"}, more...)
	for _, t := range sp.tasks {
		if t.panics != nil {
			return append(out, "C14")
		}
	}
	return out
}

const (
	pinNone = iota
	pinForever
	pinUntilRelease
	pinBarrier // returns only after every barrier task of the scenario has been started
)

type taskSpec struct {
	pin    int
	yields int
	panics any
	goexit bool // the task ends by terminating its goroutine (runtime.Goexit, t.FailNow inside a task)
	isNil  bool // the Task value pushed is the nil interface (calling it panics inside the worker, like any panicking task)
}

type push struct{ task, lane int }

type spec struct {
	L, Q       int
	tasks      []taskSpec
	producers  [][]push
	cancel     string // "", "cancel", "expire"
	latePush   bool   // canceller pushes one more task after cancelling
	wait       bool   // main calls Wait and marks its return
	waiters    int    // additional goroutines calling Wait
	polls      int    // Status() calls by each poller thread
	pollers    int    // number of poller threads (default 1 when polls > 0)
	release    bool   // a releaser thread releases pinUntilRelease tasks
	events     bool   // order task entry against "Wait returned" through the monitor
	monitorRun bool   // count simultaneously running tasks through a monitor atomic
	timeout0   bool   // SetTimeout(0) before anything is pushed: a push never waits
}

type harness struct {
	sp         *spec
	tl         *tasklane.TaskLane
	ctx        vctx.Context
	tasks      []*task
	results    []error
	pushed     []bool
	running    vatomic.Int32
	waitRet    bool
	lane       []*vsched.Thread
	polled     []int
	lateErr    error
	lateDone   bool
	lateTask   *task
	prod       []*vsched.Thread
	waiterT    []*vsched.Thread
	mainPushed bool
	releaseC   *vsched.Chan[struct{}]
	foreverC   *vsched.Chan[struct{}]
	barrierC   *vsched.Chan[struct{}]
	barrierN   int // barrier tasks in the scenario
	arrived    int
	restStatus *tasklane.LaneStatus // what Status() returned when asked at rest
}

type task struct {
	h      *harness
	id     int
	sp     taskSpec
	enters int
	exits  int
}

func (t *task) Start() {
	h := t.h
	if h.sp.events {
		vsched.Event(fmt.Sprintf("enter-task%d", t.id))
	}
	t.enters++
	if t.enters > 1 {
		failFor(fmt.Sprintf("C06: task %d started twice", t.id), h.sp.exactlyOnce()...)
	}
	if h.waitRet {
		failFor(fmt.Sprintf("C07: task %d started after Wait() had returned", t.id), "C07")
	}
	if h.sp.monitorRun {
		if n := h.running.Add(1); int(n) > h.sp.L {
			failFor(fmt.Sprintf("C08: %d tasks executing at once with laneSize %d", n, h.sp.L), "C08")
		}
		defer h.running.Add(-1)
	}
	switch t.sp.pin {
	case pinForever:
		h.foreverC.Recv()
	case pinUntilRelease:
		h.releaseC.Recv2()
	case pinBarrier:
		// needs as many workers serving at once as there are barrier tasks
		h.arrived++
		if h.arrived == h.barrierN {
			h.barrierC.Close()
		} else {
			h.barrierC.Recv2()
		}
	}
	for i := 0; i < t.sp.yields; i++ {
		vsched.Yield("task-body")
	}
	t.exits++
	if t.sp.panics != nil {
		panic(t.sp.panics)
	}
	if t.sp.goexit {
		runtime.Goexit()
	}
}

var errBoom = errors.New("boom-error")

type boomStruct struct{ a, b int }

// uncomparable: comparing two values of this type with == panics at run time
type boomSlice struct {
	msg  string
	path []string
}

func (b boomSlice) Error() string { return b.msg }

func body(sp *spec) func(c *vsched.Ctx) {
	return func(c *vsched.Ctx) {
		h := &harness{sp: sp}
		var cancel vctx.CancelFunc
		if sp.cancel == "expire" {
			h.ctx, cancel = vctx.WithManualTimeout(vctx.Background(), 1)
		} else {
			h.ctx, cancel = vctx.WithCancel(vctx.Background())
		}
		_ = cancel
		h.foreverC = vsched.MakeChan[struct{}]().SetName("pin-forever")
		h.releaseC = vsched.MakeChan[struct{}]().SetName("pin-release")
		h.barrierC = vsched.MakeChan[struct{}]().SetName("barrier")
		for i, ts := range sp.tasks {
			h.tasks = append(h.tasks, &task{h: h, id: i, sp: ts})
			if ts.pin == pinBarrier {
				h.barrierN++
			}
		}
		h.results = make([]error, len(sp.tasks))
		h.pushed = make([]bool, len(sp.tasks))
		before := len(vsched.Threads())
		h.tl = tasklane.New(h.ctx, sp.L, sp.Q)
		h.lane = append(h.lane, vsched.Threads()[before:]...)
		if sp.timeout0 {
			h.tl.SetTimeout(0)
		}
		if len(h.lane) != 2*sp.L {
			// not a violation by itself, but the oracles below rely on knowing the lane's goroutines
			c.Outcome(fmt.Sprintf("lane-threads=%d", len(h.lane)))
		}
		runPushes := func(pl []push) {
			for _, p := range pl {
				var tk tasklane.Task = h.tasks[p.task]
				if h.tasks[p.task].sp.isNil {
					tk = nil
				}
				err := h.tl.PushTask(tk, p.lane)
				h.results[p.task] = err
				h.pushed[p.task] = true
			}
		}
		// a single producer is played by the main thread itself (one thread less to interleave)
		inline := len(sp.producers) == 1
		if inline {
			h.prod = append(h.prod, vsched.Cur())
		} else {
			for pi, pl := range sp.producers {
				pl := pl
				h.prod = append(h.prod, vsched.GoNamed(fmt.Sprintf("producer%d", pi), func() { runPushes(pl) }))
			}
		}
		if sp.cancel != "" {
			vsched.GoNamed("canceller", func() {
				if sp.cancel == "expire" {
					vctx.Expire(h.ctx)
				} else {
					cancel()
				}
				if sp.latePush {
					h.lateTask = &task{h: h, id: 99}
					h.lateErr = h.tl.PushTask(h.lateTask, 0)
					h.lateDone = true
				}
			})
		}
		np := sp.pollers
		if np == 0 && sp.polls > 0 {
			np = 1
		}
		for pi := 0; pi < np; pi++ {
			vsched.GoNamed(fmt.Sprintf("poller%d", pi), func() {
				var first *tasklane.LaneStatus
				var firstCopy tasklane.LaneStatus
				for i := 0; i < sp.polls; i++ {
					vsched.Tag("Status()")
					st := h.tl.Status()
					vsched.Untag()
					if i == 0 {
						first, firstCopy = st, *st
					}
					h.polled = append(h.polled, st.PendingTask)
					if st.PendingTask < 0 || st.PendingTask > sp.L*(sp.Q+1) {
						failFor(fmt.Sprintf("C14: Status().PendingTask=%d outside [0,%d]", st.PendingTask, sp.L*(sp.Q+1)), "C14")
					}
				}
				// whether a report is a snapshot or a live view is not stated; a shared report written by
				// two concurrent Status() calls is a data race, which the race check reports
				_, _ = first, firstCopy
			})
		}
		if sp.release {
			vsched.GoNamed("releaser", func() { h.releaseC.Close() })
		}
		for wi := 0; wi < sp.waiters; wi++ {
			h.waiterT = append(h.waiterT, vsched.GoNamed(fmt.Sprintf("waiter%d", wi), func() { h.tl.Wait() }))
		}
		// the report "at rest" is asked for by a thread of its own once nothing else moves
		c.AtRest(func() { h.restStatus = h.tl.Status() })
		c.OnEnd(func() string { return h.atEnd(c) })
		if inline {
			runPushes(sp.producers[0])
			h.mainPushed = true
		}
		if sp.wait {
			h.tl.Wait()
			if sp.events {
				vsched.Event("wait-returned")
			}
			h.waitRet = true
		}
	}
}

func (h *harness) prodDone(i int) bool {
	if len(h.sp.producers) == 1 {
		return h.mainPushed
	}
	return h.prod[i].Done()
}

func (h *harness) atEnd(c *vsched.Ctx) string {
	sp := h.sp
	bad := ""
	// rep records the first failed clause among those the property being decided owns
	rep := func(msg string, props ...string) {
		if bad == "" && owns(props...) {
			bad = msg
		}
	}
	once := sp.exactlyOnce()
	cancelled := vctx.RawErr(h.ctx) != nil
	accepted, entered, rejected := 0, 0, 0
	pinnedForever := 0
	insideBody := 0
	var lab []string
	for i, t := range h.tasks {
		if t.sp.isNil {
			continue // nothing of it can be observed; what matters is that the others are still served
		}
		if t.enters > 1 {
			rep(fmt.Sprintf("C06: task %d started %d times", i, t.enters), once...)
		}
		entered += t.enters
		if t.enters >= 1 && t.exits == 0 {
			insideBody++
			if t.sp.pin == pinForever {
				pinnedForever++
			}
		}
		switch {
		case !h.pushed[i]:
			lab = append(lab, fmt.Sprintf("t%d:inflight", i))
			if t.enters > 0 {
				// the push may not have returned yet although the task already runs: legal
				lab[len(lab)-1] += "+ran"
			}
		case h.results[i] == nil:
			accepted++
			lab = append(lab, fmt.Sprintf("t%d:ok/%d", i, t.enters))
		default:
			rejected++
			err := h.results[i]
			isCtx := errors.Is(err, vctx.Canceled) || errors.Is(err, vctx.DeadlineExceeded)
			if !errors.Is(err, tasklane.ErrTimeout) && !isCtx {
				rep(fmt.Sprintf("C06: PushTask returned unexpected error %v", err), "C06")
			}
			// (a push bounded by a derived context may report its timeout as a context error: the
			// statement allows "timeout or context error" for a rejected push)
			if t.enters != 0 {
				rep(fmt.Sprintf("C06: task %d was started although PushTask returned %v", i, err), "C06")
			}
			lab = append(lab, fmt.Sprintf("t%d:%v", i, err))
		}
	}
	if cancelled && sp.latePush {
		switch ctxErr := vctx.RawErr(h.ctx); {
		case !h.lateDone:
			rep("C07: PushTask begun after cancellation did not return", "C07")
		case h.lateErr == nil || !errors.Is(h.lateErr, ctxErr):
			rep(fmt.Sprintf("C07: PushTask begun after cancellation returned %v, want the context's error %v", h.lateErr, ctxErr), "C07")
		case h.lateTask.enters != 0:
			rep("C07: a task pushed after cancellation was started", "C07")
		}
	}
	st := h.restStatus
	if st == nil {
		rep("C14: Status() called at rest did not return", "C14")
		st = &tasklane.LaneStatus{}
	}
	// tasks handed to the lane (push returned nil, or the push is still in flight but the task already runs) and not entered
	handed := 0
	for i, t := range h.tasks {
		if t.sp.isNil {
			continue
		}
		if (h.pushed[i] && h.results[i] == nil) || (!h.pushed[i] && t.enters > 0) {
			handed++
		}
	}
	// an in-flight push parked on the buffer has not enqueued; one that is not parked cannot exist at quiescence
	pendingModel := handed - entered
	if st.PendingTask < 0 || st.PendingTask > sp.L*(sp.Q+1) {
		rep(fmt.Sprintf("C14: Status().PendingTask=%d outside [0,%d]", st.PendingTask, sp.L*(sp.Q+1)), "C14")
	}
	// C14: LastPanic is one of the values panicked
	var panicked []any
	for _, t := range h.tasks {
		if t.exits > 0 && t.sp.panics != nil {
			panicked = append(panicked, t.sp.panics)
		}
	}
	if len(panicked) == 0 {
		if st.LastPanic != nil {
			rep(fmt.Sprintf("C14: LastPanic=%v although no task panicked", st.LastPanic), "C14")
		}
	} else {
		ok := false
		for _, p := range panicked {
			if reflect.DeepEqual(p, st.LastPanic) {
				ok = true
			}
		}
		if !ok {
			rep(fmt.Sprintf("C14: LastPanic=%#v is none of the values panicked %#v", st.LastPanic, panicked), "C14")
		}
		lab = append(lab, fmt.Sprintf("lastPanic=%v", st.LastPanic))
	}
	laneAlive := 0
	for _, t := range h.lane {
		if !t.Done() {
			laneAlive++
		}
	}
	// workers occupied for good: by a task that never returns, or by a barrier task waiting for
	// one that cannot be started
	occupied := insideBody
	// who owns "an accepted task is never started although a worker should be free": C06
	// (eventually started) and C08 (no waiting behind a busy worker) - unless a task has
	// panicked, then it is C14's "its worker keeps serving" that is at stake
	starve := []string{"C06", "C08"}
	if len(panicked) > 0 {
		// a panicked task has ended, so "running tasks return" still holds for C06 and no worker is
		// busy for C08: all three statements are contradicted
		starve = []string{"C06", "C08", "C14"}
	}
	if !cancelled {
		// C06 + C08 (+ C14 where tasks panic: "its worker keeps serving"): at rest with a live
		// context a task may only still be waiting if every worker is occupied for ever
		if pendingModel > 0 && pinnedForever < sp.L {
			rep(fmt.Sprintf(strings.Join(starve, "/")+": at rest %d accepted task(s) were never started although only %d of %d workers are blocked by a long task (%d tasks are inside their body)", pendingModel, pinnedForever, sp.L, occupied), starve...)
		}
		// no producer can be parked unless the lane is saturated (timers live: it would have timed out)
		for i, p := range h.prod {
			if !h.prodDone(i) && pinnedForever < sp.L {
				rep(fmt.Sprintf(strings.Join(starve, "/")+": producer%d is still blocked in PushTask at rest although a worker is free (%s)", i, p.PendingOp()), starve...)
			}
		}
	} else {
		// C07: producers released
		for i, p := range h.prod {
			if !h.prodDone(i) {
				rep(fmt.Sprintf("C07: producer%d still blocked in PushTask after the context ended (%s)", i, p.PendingOp()), "C07")
			}
		}
		// C07: Wait returns once every started task has returned; nothing of the lane stays behind
		if insideBody == 0 {
			ended := "returned"
			for _, t := range h.tasks {
				if t.sp.goexit && t.exits > 0 {
					ended = "ended (one of them by runtime.Goexit)"
				}
			}
			if laneAlive != 0 {
				var w []string
				for _, t := range h.lane {
					if !t.Done() {
						w = append(w, t.Name+":"+t.PendingOp())
					}
				}
				rep(fmt.Sprintf("C07: %d lane goroutine(s) left behind after cancellation with no task running: %s", laneAlive, strings.Join(w, ", ")), "C07")
			}
			if sp.wait && !h.waitRet {
				rep("C07: Wait() has not returned although the context ended and every started task "+ended, "C07")
			}
			for i, w := range h.waiterT {
				if !w.Done() {
					rep(fmt.Sprintf("C07: Wait() called from goroutine waiter%d has not returned although the context ended and every started task %s (%s)", i, ended, w.PendingOp()), "C07")
				}
			}
		}
		lab = append(lab, fmt.Sprintf("cancelled;wait=%v;alive=%d", h.waitRet, laneAlive))
	}
	// C14: the pending count at rest. After a cancellation pending tasks may be dropped and the
	// statement does not say whether dropped tasks still count, so the comparison is made with a
	// live context, or when nothing is left that could have been dropped.
	if (!cancelled || pendingModel == 0) && st.PendingTask != pendingModel {
		rep(fmt.Sprintf("C14: at rest Status().PendingTask=%d but %d tasks are accepted and not yet started (accepted=%d started=%d)", st.PendingTask, pendingModel, handed, entered), "C14")
	}
	if bad != "" {
		return bad
	}
	if len(h.polled) > 0 {
		lab = append(lab, fmt.Sprintf("polls=%v", h.polled))
	}
	sort.Strings(lab)
	c.Outcome(strings.Join(lab, " "))
	return ""
}

func main() {
	b012 := []int{0, 1, 2}
	unb := []int{0, 1, -1}
	T := func(n int) []taskSpec { return make([]taskSpec, n) }
	s1 := &spec{L: 1, Q: 0, tasks: T(2), producers: [][]push{{{0, 0}, {1, 0}}}}
	s1q1 := &spec{L: 1, Q: 1, tasks: T(3), producers: [][]push{{{0, 0}, {1, 0}, {2, 0}}}}
	s2 := &spec{L: 1, Q: 0, tasks: []taskSpec{{pin: pinForever}, {}, {}}, producers: [][]push{{{0, 0}, {1, 0}, {2, 0}}}}
	s2b := &spec{L: 1, Q: 0, tasks: T(2), producers: [][]push{{{0, 0}}, {{1, 0}}}}
	s3 := &spec{L: 2, Q: 1, tasks: []taskSpec{{pin: pinForever}, {}, {}}, producers: [][]push{{{0, 0}, {1, 0}, {2, 0}}}, monitorRun: true}
	s3b := &spec{L: 2, Q: 0, tasks: []taskSpec{{pin: pinForever}, {yields: 1}, {yields: 1}}, producers: [][]push{{{0, 0}, {1, 0}, {2, 0}}}, monitorRun: true}
	s4 := &spec{L: 2, Q: 1, tasks: []taskSpec{{yields: 1}, {yields: 1}, {yields: 1}, {yields: 1}}, producers: [][]push{{{0, 0}, {1, 1}}, {{2, 1}, {3, 0}}}, monitorRun: true}
	s4s := &spec{L: 2, Q: 1, tasks: []taskSpec{{yields: 1}, {yields: 1}}, producers: [][]push{{{0, 0}}, {{1, 0}}}, monitorRun: true}
	s5a := &spec{L: 1, Q: 0, tasks: T(2), producers: [][]push{{{0, 0}, {1, 0}}}, cancel: "cancel", wait: true, events: true, latePush: true}
	s5b := &spec{L: 1, Q: 1, tasks: []taskSpec{{pin: pinUntilRelease}, {}, {}}, producers: [][]push{{{0, 0}, {1, 0}, {2, 0}}}, cancel: "cancel", wait: true, release: true, events: true}
	s5c := &spec{L: 2, Q: 1, tasks: []taskSpec{{yields: 1}, {yields: 1}}, producers: [][]push{{{0, 0}}, {{1, 0}}}, cancel: "cancel", wait: true, events: true}
	s5d := &spec{L: 1, Q: 0, tasks: []taskSpec{{pin: pinUntilRelease}, {}, {}}, producers: [][]push{{{0, 0}, {1, 0}}, {{2, 0}}}, cancel: "cancel", wait: true, release: true}
	s6a := &spec{L: 1, Q: 1, tasks: T(2), producers: [][]push{{{0, 0}, {1, 0}}}, cancel: "expire", wait: true, events: true, latePush: true}
	s7 := &spec{L: 2, Q: 1, tasks: []taskSpec{{panics: "boom"}, {panics: errBoom}, {}}, producers: [][]push{{{0, 0}, {1, 1}, {2, 0}}}, polls: 2}
	s7b := &spec{L: 1, Q: 1, tasks: []taskSpec{{panics: 42}, {}, {panics: boomStruct{1, 2}}}, producers: [][]push{{{0, 0}, {1, 0}, {2, 0}}}, polls: 2}
	s7c := &spec{L: 1, Q: 0, tasks: []taskSpec{{panics: "boom"}, {panics: errBoom}}, producers: [][]push{{{0, 0}, {1, 0}}}, polls: 2, pollers: 2}
	s9 := &spec{L: 1, Q: 1, tasks: []taskSpec{{panics: "boom"}, {yields: 1}, {yields: 1}}, producers: [][]push{{{0, 0}, {1, 0}, {2, 0}}}, monitorRun: true}
	s9b := &spec{L: 2, Q: 1, tasks: []taskSpec{{panics: 42}, {yields: 1}, {yields: 1}, {yields: 1}}, producers: [][]push{{{0, 0}, {1, 0}, {2, 1}, {3, 0}}}, monitorRun: true}
	// a nil Task among the tasks: its worker must go on serving
	s21 := &spec{L: 1, Q: 1, tasks: []taskSpec{{}, {isNil: true}, {}, {}}, producers: [][]push{{{0, 0}, {1, 0}, {2, 0}, {3, 0}}}}
	s21b := &spec{L: 2, Q: 1, tasks: []taskSpec{{isNil: true}, {pin: pinForever}, {}, {}}, producers: [][]push{{{0, 0}, {1, 1}, {2, 1}, {3, 0}}}, monitorRun: true}
	// many panics in a row on one lane (wide in time: logs, rings and counters of panics fill up)
	s20 := &spec{L: 1, Q: 1}
	{
		var pl []push
		for i := 0; i < 1100; i++ {
			s20.tasks = append(s20.tasks, taskSpec{panics: "boom"})
			pl = append(pl, push{i, 0})
		}
		s20.tasks = append(s20.tasks, taskSpec{}, taskSpec{})
		pl = append(pl, push{1100, 0}, push{1101, 0})
		s20.producers = [][]push{pl}
	}
	// a push that never waits (timeout 0), begun after the cancellation
	s5e := &spec{L: 1, Q: 1, tasks: T(2), producers: [][]push{{{0, 0}, {1, 0}}}, cancel: "cancel", wait: true, latePush: true, timeout0: true}
	s6e := &spec{L: 1, Q: 1, tasks: T(1), producers: [][]push{{{0, 0}}}, cancel: "expire", wait: true, latePush: true, timeout0: true}
	// three lanes: a busy lane's second task must go to exactly one of the two idle workers
	s19 := &spec{L: 3, Q: 1, tasks: []taskSpec{{pin: pinForever}, {yields: 1}, {}}, producers: [][]push{{{0, 0}, {1, 0}, {2, 0}}}, monitorRun: true}
	// a task panics, another one is still running when the context is cancelled: Wait must wait for it
	s18 := &spec{L: 1, Q: 1, tasks: []taskSpec{{panics: "boom"}, {pin: pinUntilRelease}, {}}, producers: [][]push{{{0, 0}, {1, 0}, {2, 0}}}, cancel: "cancel", wait: true, release: true, events: true}
	s18b := &spec{L: 2, Q: 1, tasks: []taskSpec{{panics: "boom"}, {panics: errBoom}, {yields: 1}}, producers: [][]push{{{0, 0}, {1, 1}, {2, 0}}}, cancel: "cancel", wait: true}
	// after a panic on each worker, two tasks that can only finish when both are running at once
	s17 := &spec{L: 2, Q: 1, tasks: []taskSpec{{panics: "boom"}, {panics: errBoom}, {pin: pinBarrier}, {pin: pinBarrier}}, producers: [][]push{{{0, 0}, {1, 1}, {2, 0}, {3, 0}}}}
	s17b := &spec{L: 1, Q: 1, tasks: []taskSpec{{panics: "boom"}, {}, {panics: 42}, {}}, producers: [][]push{{{0, 0}, {1, 0}, {2, 0}, {3, 0}}}}
	us := boomSlice{"uncomparable", []string{"a", "b"}}
	s7d := &spec{L: 1, Q: 1, tasks: []taskSpec{{panics: us}, {}, {panics: us}}, producers: [][]push{{{0, 0}, {1, 0}, {2, 0}}}, polls: 1}
	// wide but shallow: sizes at which a per-lane bitmask, a grouping of lanes or a small fixed array would break
	wide := func(L int, probes int, probeLane int) *spec {
		sp := &spec{L: L, Q: 1}
		var pl []push
		for i := 0; i < L; i++ {
			sp.tasks = append(sp.tasks, taskSpec{pin: pinForever})
			pl = append(pl, push{i, i})
		}
		for i := 0; i < probes; i++ {
			sp.tasks = append(sp.tasks, taskSpec{})
			pl = append(pl, push{L + i, probeLane})
		}
		sp.producers = [][]push{pl}
		return sp
	}
	s10 := wide(65, 2, 64) // every worker pinned, two tasks waiting on the last lane: the pending count must be 2
	s12 := &spec{L: 9, Q: 1, monitorRun: true}
	{
		var pl []push
		for i := 0; i < 8; i++ {
			s12.tasks = append(s12.tasks, taskSpec{pin: pinForever})
			pl = append(pl, push{i, 0})
		}
		s12.tasks = append(s12.tasks, taskSpec{})
		pl = append(pl, push{8, 0}) // everything to lane 0: the ninth worker must take the probe
		s12.producers = [][]push{pl}
	}
	// long run: one worker pinned, the other one has to run 24 tasks coming from both lanes
	s16 := &spec{L: 2, Q: 1, tasks: []taskSpec{{pin: pinForever}}, monitorRun: true}
	{
		pl := []push{{0, 0}}
		for i := 1; i <= 24; i++ {
			s16.tasks = append(s16.tasks, taskSpec{})
			pl = append(pl, push{i, i % 2})
		}
		s16.producers = [][]push{pl}
	}
	s13 := &spec{L: 2, Q: 2, tasks: []taskSpec{{yields: 1}, {yields: 1}, {yields: 1}, {pin: pinForever}, {}}, producers: [][]push{{{0, 0}, {1, 1}, {2, 0}, {3, 0}, {4, 1}}}, monitorRun: true}
	s14 := &spec{L: 1, Q: 1, tasks: []taskSpec{{pin: pinUntilRelease}, {}, {}}, producers: [][]push{{{0, 0}, {1, 0}, {2, 0}}}, cancel: "cancel", wait: true, waiters: 1, release: true}
	s15 := &spec{L: 2, Q: 1, tasks: []taskSpec{{goexit: true}, {yields: 1}}, producers: [][]push{{{0, 0}, {1, 1}}}, cancel: "cancel", wait: true}
	s8 := &spec{L: 2, Q: 1, tasks: []taskSpec{{pin: pinForever}, {pin: pinForever}, {}, {}, {}}, producers: [][]push{{{0, 0}, {1, 1}, {2, 0}, {3, 1}, {4, 0}}}, polls: 1}

	P := func(b ...int) sdrive.Plan { return sdrive.Plan{Bounds: b} } // preemption bounds, in-process
	PS := func(n int, b ...int) sdrive.Plan { return sdrive.Plan{Bounds: b, Shards: n} }
	D := func(b ...int) sdrive.Plan { return sdrive.Plan{Delay: true, Bounds: b} } // delay bounds
	DS := func(n int, b ...int) sdrive.Plan { return sdrive.Plan{Delay: true, Bounds: b, Shards: n} }
	scens := []sdrive.Scenario{
		{Name: "s1-L1Q0-2tasks", Props: []string{"C06", "C14"}, About: "one lane, unbuffered, two tasks",
			Quick: P(unb...), Body: body(s1)},
		{Name: "s1-L1Q1-3tasks", Props: []string{"C06"}, About: "one lane, queue of 1, three tasks",
			Quick: P(unb...), Body: body(s1q1)},
		{Name: "s2-L1Q0-timeout", Props: []string{"C06"}, About: "first task pinned for ever, timers live: the third push must time out and never run",
			Quick: P(unb...), TimersLive: true, Body: body(s2), MinOutcomes: 2},
		{Name: "s2b-L1Q0-2producers", Props: []string{"C06"}, About: "two producers racing for one unbuffered lane, timers live",
			Quick: P(unb...), TimersLive: true, Body: body(s2b), MinOutcomes: 2},
		{Name: "s3-L2Q1-pinned-lane", Props: []string{"C08", "C06"}, About: "everything pushed to lane 0 whose first task never returns: the other worker must drain the lane",
			Quick: PS(8, b012...), Thorough: PS(16, 0, 1, 2, 3), Body: body(s3)},
		{Name: "s3b-L2Q0-pinned-lane", Props: []string{"C08"}, About: "as s3 with unbuffered lanes",
			Quick: PS(8, b012...), Thorough: PS(16, 0, 1, 2, 3), Body: body(s3b)},
		{Name: "s4s-L2Q1-2producers", Props: []string{"C08", "C06"}, About: "two producers, one task each, same lane, two workers",
			Quick: D(0, 1, 2, 3, 4, 5), Thorough: DS(16, 0, 2, 4, 6, 8), Body: body(s4s)},
		{Name: "s4s-L2Q1-2producers-p", Props: []string{"C08"}, About: "same scenario, preemption-bounded",
			Quick: P(0, 1), Thorough: PS(16, 0, 1, 2), Body: body(s4s)},
		{Name: "s4-L2Q1-2x2", Props: []string{"C08"}, About: "two producers pushing two tasks each to arbitrary lanes",
			Quick: D(0, 1, 2, 3), Thorough: DS(16, 0, 2, 4, 6), Body: body(s4)},
		{Name: "s5a-L1Q0-cancel", Props: []string{"C07", "C06"}, About: "cancel lands at every step; late push after cancel; Wait; task entry ordered against Wait's return",
			Quick: P(unb...), Body: body(s5a), MinOutcomes: 2},
		{Name: "s5b-L1Q1-cancel-pinned", Props: []string{"C07"}, About: "worker mid-task (released later), queue full, cancel at every step",
			Quick: PS(8, b012...), Thorough: PS(16, 0, 1, 2, 3), Body: body(s5b), MinOutcomes: 2},
		{Name: "s5c-L2Q1-cancel", Props: []string{"C07", "C06"}, About: "two lanes, two producers, cancel at every step",
			Quick: D(0, 1, 2, 3, 4), Thorough: DS(16, 0, 2, 4, 6, 8), Body: body(s5c), MinOutcomes: 2},
		{Name: "s5d-L1Q0-blocked-producers", Props: []string{"C07"}, About: "timers infinite: producers blocked on a busy lane must be released by the cancel",
			Quick: D(0, 1, 2, 3, 4, 5), Thorough: PS(16, 0, 1, 2), Body: body(s5d), MinOutcomes: 2},
		{Name: "s6a-L1Q1-deadline", Props: []string{"C07"}, About: "as s5a with deadline expiry instead of cancel",
			Quick: P(b012...), Thorough: PS(16, unb...), Body: body(s6a), MinOutcomes: 2},
		{Name: "s7-L2Q1-two-panics", Props: []string{"C14"}, About: "two tasks panic with values of different dynamic types on two workers, one normal task, Status polled twice",
			Quick: D(0, 1, 2, 3), Thorough: DS(16, 0, 2, 4, 6, 8), Body: body(s7)},
		{Name: "s7b-L1Q1-panics", Props: []string{"C14"}, About: "one worker, panic / normal / panic, Status polled twice",
			Quick: PS(8, b012...), Thorough: PS(16, unb...), Body: body(s7b)},
		{Name: "s7c-L1Q0-two-pollers", Props: []string{"C14"}, About: "two tasks panicking with different dynamic types, two goroutines polling Status() twice each and keeping their first report",
			Quick: D(0, 1, 2, 3, 4), Thorough: PS(16, b012...), Body: body(s7c)},
		{Name: "s9-L1Q1-panic-then-load", Props: []string{"C08", "C14"}, About: "a task panics, then more tasks than workers are pending: still at most laneSize run at once",
			Quick: P(unb...), Body: body(s9)},
		{Name: "s9b-L2Q1-panic-then-load", Props: []string{"C08"}, About: "as s9 with two lanes",
			Quick: D(0, 1, 2, 3), Thorough: DS(16, 0, 2, 4, 6), Body: body(s9b)},
		{Name: "s7d-L1Q1-uncomparable-panics", Props: []string{"C14"}, About: "the same uncomparable panic value (a struct holding a slice) twice on one worker, with a normal task in between",
			Quick: PS(8, b012...), Thorough: PS(16, unb...), Body: body(s7d)},
		{Name: "s10-L65Q1-wide", Props: []string{"C14"}, About: "wide but shallow: 65 lanes, every worker pinned, two tasks waiting on lane 64; the pending count is compared exactly",
			Quick: sdrive.Plan{Delay: true, Wide: true, Bounds: []int{0}}, Thorough: sdrive.Plan{Delay: true, Wide: true, Bounds: []int{0, 1}}, Body: body(s10)},
		{Name: "s12-L9Q1-wide", Props: []string{"C08", "C06"}, About: "wide but shallow: 9 lanes, 8 never-ending tasks and a probe all pushed to lane 0: the ninth worker must run the probe",
			Quick: sdrive.Plan{Delay: true, Wide: true, Bounds: []int{0, 1}}, Thorough: sdrive.Plan{Delay: true, Wide: true, Bounds: []int{0, 1, 2}}, Body: body(s12)},
		{Name: "s16-L2Q1-long-run", Props: []string{"C06", "C08"}, About: "wide but shallow in time: one worker pinned for ever, 24 tasks pushed alternately to both lanes - every one must be started exactly once by the free worker (per-worker counters, every-Nth-round logic)",
			Quick: sdrive.Plan{Delay: true, Wide: true, Bounds: []int{0, 1}}, Thorough: sdrive.Plan{Delay: true, Wide: true, Bounds: []int{0, 1, 2}, Shards: 16}, Body: body(s16)},
		{Name: "s13-L2Q2-backlog-then-other-lane", Props: []string{"C08"}, About: "lane 0 gets a backlog that other workers help to drain, its last task never returns; then a task for lane 1 arrives: an idle worker must take it",
			Quick: D(0, 1, 2, 3), Thorough: PS(16, 0, 1, 2, 3), Body: body(s13)},
		{Name: "s14-L1Q1-two-waiters", Props: []string{"C07"}, About: "two goroutines in Wait, three tasks on the lane at cancel (running, held, buffered)",
			Quick: PS(8, b012...), Thorough: PS(16, unb...), Body: body(s14), MinOutcomes: 2},
		{Name: "s15-L2Q1-goexit-task", Props: []string{"C07"}, About: "a task ends by terminating its goroutine (runtime.Goexit); cancel; Wait must still return",
			Quick: D(0, 1, 2, 3, 4), Thorough: PS(16, b012...), Body: body(s15), MinOutcomes: 2},
		{Name: "s17-L2Q1-panics-then-barrier", Props: []string{"C14"}, About: "each of the two workers runs a panicking task, then two tasks arrive that return only when both are running at once: every worker must still be serving",
			Quick: D(0, 1, 2, 3), Thorough: DS(16, 0, 2, 4, 6), Body: body(s17)},
		{Name: "s17b-L1Q1-panic-task-panic-task", Props: []string{"C14"}, About: "one worker: panic, task, panic, task - the worker must survive every panic",
			Quick: P(b012...), Thorough: PS(16, unb...), Body: body(s17b)},
		{Name: "s19-L3Q1-busy-lane-two-idle", Props: []string{"C06", "C08"}, About: "three lanes: lane 0's worker is pinned, two more tasks are pushed to lane 0 while two other workers are idle - each must be started exactly once",
			Quick: D(0, 1, 2, 3), Thorough: DS(16, 0, 2, 4, 6), Body: body(s19)},
		{Name: "s18-L1Q1-panic-then-cancel", Props: []string{"C07"}, About: "a task panics, the next one is still running when the context is cancelled (released later): Wait returns only after it, nothing is left behind",
			Quick: PS(8, b012...), Thorough: PS(16, unb...), Body: body(s18), MinOutcomes: 2},
		{Name: "s18b-L2Q1-two-panics-then-cancel", Props: []string{"C07"}, About: "a panic on each worker, a third task, cancel at every step, Wait",
			Quick: D(0, 1, 2, 3), Thorough: DS(16, 0, 2, 4, 6), Body: body(s18b), MinOutcomes: 2},
		{Name: "s21-L1Q1-nil-task", Props: []string{"C06", "C08"}, About: "a nil Task is pushed between ordinary ones (calling it panics inside the worker): the tasks after it must still be started",
			Quick: P(b012...), Thorough: PS(16, unb...), Body: body(s21)},
		{Name: "s21b-L2Q1-nil-task-then-pinned", Props: []string{"C08"}, About: "a nil Task on lane 0, a never-ending task on lane 1, then one task per lane: both must be started by worker 0",
			Quick: D(0, 1, 2, 3), Thorough: DS(16, 0, 2, 4, 6), Body: body(s21b)},
		{Name: "s20-L1Q1-1100-panics", Props: []string{"C06", "C08", "C14"}, About: "wide in time: 1100 panicking tasks in a row on one lane, then two ordinary ones, which must still be started",
			Quick: sdrive.Plan{Delay: true, Wide: true, Bounds: []int{0}}, Thorough: sdrive.Plan{Delay: true, Wide: true, Bounds: []int{0, 1}}, Body: body(s20)},
		{Name: "s5e-L1Q1-cancel-nowait-push", Props: []string{"C07"}, About: "SetTimeout(0): a push begun after the cancellation must still return the context's error without enqueuing",
			Quick: P(unb...), Body: body(s5e), MinOutcomes: 2},
		{Name: "s6e-L1Q1-deadline-nowait-push", Props: []string{"C07"}, About: "as s5e with deadline expiry",
			Quick: P(unb...), Body: body(s6e), MinOutcomes: 2},
		{Name: "s8-L2Q1-stable", Props: []string{"C14"}, About: "both workers pinned, three tasks queued: pending count compared exactly at rest",
			Quick: D(0, 1, 2, 3), Thorough: DS(16, 0, 2, 4, 6, 8), Body: body(s8)},
	}
	// only C14 speaks of data races, and of those of Status()
	sdrive.RaceViolates = func(id, msg string) bool { return id == "C14" && strings.Contains(msg, "[in Status()]") }
	vcommon.RaceViolates = func(id, report string) bool {
		return id == "C14" && strings.Contains(report, "tasklane.(*TaskLane).Status")
	}
	sdrive.Main("model_checking", scens, []string{
		"code between two visible operations (channel, atomic, wait-group, context, timer, monitor) is atomic; justified by the happens-before race check on every TaskLane field in every explored execution",
		"timers are modelled as nondeterministic firing (early = 1 deviation, at quiescence free): a superset of real durations",
		"sequentially consistent atomics; weak-memory reorderings are not modelled",
	})
}
