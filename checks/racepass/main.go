// Command racepass is the free-running complement of the schedule checks: the same kinds
// of scenario bodies run on the REAL, uninstrumented packages with real goroutines under
// Go's race detector (built with -race, no overlay). It is sampling, so it never decides a
// property; but a race it reports is real (the detector has no false positives) and covers
// what the cooperative scheduler's field monitors cannot see (slice elements, map contents,
// captured locals). Output: one JSON document on stdout; race reports go to GORACE log files.
package main

import (
	"context"
	"encoding/json"
	"errors"
	"flag"
	"fmt"
	"io"
	"net"
	"net/http"
	"net/url"
	"os"
	"sync"
	"time"

	"github.com/whoisnian/glb/httpd"
	"github.com/whoisnian/glb/logger"
	"github.com/whoisnian/glb/tasklane"
	"github.com/whoisnian/glb/util/netutil"
)

var (
	id      = flag.String("id", "", "property")
	seconds = flag.Float64("seconds", 2, "how long to run")
)

type nullWriter struct{ h http.Header }

func (n *nullWriter) Header() http.Header         { return n.h }
func (n *nullWriter) Write(b []byte) (int, error) { return len(b), nil }
func (n *nullWriter) WriteHeader(int)             {}

type task struct{ v any }

func (t task) Start() {
	if t.v != nil {
		panic(t.v)
	}
}

func main() {
	flag.Parse()
	deadline := time.Now().Add(time.Duration(*seconds * float64(time.Second)))
	iters := 0
	for time.Now().Before(deadline) {
		iters++
		var wg sync.WaitGroup
		switch *id {
		case "C02", "C03":
			for kind := 0; kind < 3; kind++ {
				opts := logger.NewOptions(logger.LevelInfo, false, false)
				var h logger.Handler
				switch kind {
				case 0:
					h = logger.NewNanoHandler(io.Discard, opts)
				case 1:
					h = logger.NewTextHandler(io.Discard, opts)
				default:
					h = logger.NewJsonHandler(io.Discard, opts)
				}
				root := logger.New(h)
				parent := root.With("pre", 1, "more", "attributes so that the buffer has spare capacity").WithGroup("g")
				for g := 0; g < 6; g++ {
					wg.Add(1)
					go func(g int) {
						defer wg.Done()
						for i := 0; i < 40; i++ {
							root.Info("m", "k", g)
							c := parent.With("w", g)
							c.Warn("c", "n", i)
							parent.WithGroup("h").Error("d", "x", true)
							root.Debug("below")
							c.With("z", i).Info("gc")
						}
					}(g)
				}
			}
		case "C05", "C15":
			mux := httpd.NewMux()
			l := logger.New(logger.NewJsonHandler(io.Discard, logger.NewOptions(logger.LevelInfo, false, false)))
			if *id == "C15" {
				mux.HandleRelay(l.Relay)
			}
			h := func(s *httpd.Store) {
				_ = s.RouteParam("a") + s.RouteParam("x") + s.RouteParamAny() + s.GetID()
				if s.RouteParam("a") == "boom" {
					panic("handler panic")
				}
			}
			mux.Handle("/u/:a/:b", "GET", h)
			mux.Handle("/a/:x", "GET", h)
			mux.Handle("/w/*", "GET", h)
			mux.HandleNoRoute(h)
			paths := []string{"/u/1/2", "/a/7", "/w/x/y", "/nope", "/u/1", "/u/boom/1"}
			for g := 0; g < 6; g++ {
				wg.Add(1)
				go func(g int) {
					defer wg.Done()
					for i := 0; i < 100; i++ {
						p := paths[(g+i)%len(paths)]
						func() {
							defer func() { recover() }()
							mux.ServeHTTP(&nullWriter{h: http.Header{}}, &http.Request{Method: "GET", URL: &url.URL{Path: p}, RequestURI: p, RemoteAddr: "10.0.0.1:1"})
						}()
					}
				}(g)
			}
		case "C12":
			f := netutil.NewIPv4Filter()
			_, always, _ := net.ParseCIDR("192.168.0.0/24")
			f.Add(always)
			for w := 0; w < 4; w++ {
				wg.Add(1)
				go func(w int) {
					defer wg.Done()
					for i := 0; i < 90; i++ {
						n := &net.IPNet{IP: net.IP{10, byte(w), byte(i), 0}, Mask: net.CIDRMask(24, 32)}
						f.Add(n)
						if i%3 == 0 {
							f.Remove(n)
						}
						if i%10 == 0 {
							all := &net.IPNet{IP: net.IP{0, 0, 0, 0}, Mask: net.CIDRMask(0, 32)}
							f.Add(all)
							f.Remove(all)
						}
					}
				}(w)
			}
			for r := 0; r < 3; r++ {
				wg.Add(1)
				go func() {
					defer wg.Done()
					for i := 0; i < 300; i++ {
						f.Contains(net.IP{192, 168, 0, 7})
						f.Contains(net.IP{10, 1, byte(i), 3})
						f.Contains(net.ParseIP("8.8.8.8"))
					}
				}()
			}
		case "C06", "C07", "C08", "C14":
			ctx, cancel := context.WithCancel(context.Background())
			tl := tasklane.New(ctx, 2, 2)
			tl.SetTimeout(time.Millisecond)
			for g := 0; g < 3; g++ {
				wg.Add(1)
				go func(g int) {
					defer wg.Done()
					for i := 0; i < 60; i++ {
						var v any
						switch i % 4 {
						case 1:
							v = "boom"
						case 3:
							v = errors.New("boom")
						}
						tl.PushTask(task{v}, (g+i)%2)
						if st := tl.Status(); st.PendingTask < 0 {
							panic("negative pending")
						}
					}
				}(g)
			}
			wg.Wait()
			cancel()
			tl.Wait()
		default:
			fmt.Fprintln(os.Stderr, "unknown id")
			os.Exit(2)
		}
		wg.Wait()
	}
	json.NewEncoder(os.Stdout).Encode(map[string]any{"property": *id, "iterations": iters, "seconds": *seconds})
}
