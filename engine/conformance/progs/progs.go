// Package progs holds micro-programs over Go's concurrency primitives. They are run (a)
// natively, thousands of times, on the real runtime and (b) instrumented, under the vsched
// explorer, which enumerates every outcome its model of the primitives allows. Conformance of
// the model: every outcome the real runtime produces must be among the explored ones.
package progs

import (
	"context"
	"fmt"
	"sort"
	"strings"
	"sync"
	"sync/atomic"
)

// Prog returns a label describing what happened in this run.
type Prog struct {
	Name string
	Run  func(yield func()) string
}

func join(xs []string) string { sort.Strings(xs); return strings.Join(xs, ",") }

var Progs = []Prog{
	{"try-send-vs-parking-receiver", func(yield func()) string {
		ch := make(chan int)
		done := make(chan int)
		go func() { done <- <-ch }()
		yield()
		r := ""
		select {
		case ch <- 1:
			r = "sent"
		default:
			r = "default"
			ch <- 2
		}
		return fmt.Sprintf("%s/%d", r, <-done)
	}},
	{"try-recv-vs-parking-sender", func(yield func()) string {
		ch := make(chan int)
		go func() { ch <- 7 }()
		yield()
		select {
		case v := <-ch:
			return fmt.Sprintf("got%d", v)
		default:
			return fmt.Sprintf("default/%d", <-ch)
		}
	}},
	{"buffered-two-senders-fifo", func(yield func()) string {
		ch := make(chan int, 2)
		var wg sync.WaitGroup
		for i := 1; i <= 2; i++ {
			wg.Add(1)
			go func(i int) { defer wg.Done(); ch <- i }(i)
		}
		wg.Wait()
		return fmt.Sprintf("%d%d/len%d", <-ch, <-ch, len(ch))
	}},
	{"buffered-full-sender-parks", func(yield func()) string {
		ch := make(chan int, 1)
		ch <- 1
		done := make(chan bool)
		go func() { ch <- 2; done <- true }()
		yield()
		l := len(ch)
		a := <-ch
		<-done
		return fmt.Sprintf("len%d/%d%d", l, a, <-ch)
	}},
	{"close-wakes-all-receivers", func(yield func()) string {
		ch := make(chan int)
		var out [2]string
		var wg sync.WaitGroup
		for i := 0; i < 2; i++ {
			wg.Add(1)
			go func(i int) {
				defer wg.Done()
				v, ok := <-ch
				out[i] = fmt.Sprintf("%d%v", v, ok)
			}(i)
		}
		yield()
		close(ch)
		wg.Wait()
		return out[0] + "/" + out[1]
	}},
	{"select-two-ready", func(yield func()) string {
		a, b := make(chan int, 1), make(chan int, 1)
		a <- 1
		b <- 2
		select {
		case v := <-a:
			return fmt.Sprintf("a%d", v)
		case v := <-b:
			return fmt.Sprintf("b%d", v)
		}
	}},
	{"select-send-or-recv", func(yield func()) string {
		in, out := make(chan int), make(chan int)
		go func() { in <- 5 }()
		go func() { <-out }()
		yield()
		select {
		case v := <-in:
			go func() { out <- 0 }()
			return fmt.Sprintf("recv%d", v)
		case out <- 9:
			<-in
			return "send"
		}
	}},
	{"range-until-close", func(yield func()) string {
		ch := make(chan int, 1)
		go func() {
			for i := 0; i < 3; i++ {
				ch <- i
			}
			close(ch)
		}()
		s := 0
		n := 0
		for v := range ch {
			s += v
			n++
		}
		return fmt.Sprintf("n%d/sum%d", n, s)
	}},
	{"mutex-order", func(yield func()) string {
		var mu sync.Mutex
		var order []string
		var wg sync.WaitGroup
		for _, n := range []string{"x", "y"} {
			wg.Add(1)
			go func(n string) {
				defer wg.Done()
				mu.Lock()
				order = append(order, n)
				mu.Unlock()
			}(n)
		}
		wg.Wait()
		return strings.Join(order, "")
	}},
	{"trylock", func(yield func()) string {
		var mu sync.Mutex
		res := make(chan bool)
		mu.Lock()
		go func() { res <- mu.TryLock() }()
		yield()
		mu.Unlock()
		return fmt.Sprint(<-res)
	}},
	{"rwmutex-readers-share", func(yield func()) string {
		var mu sync.RWMutex
		var readers, max int32
		var wg sync.WaitGroup
		for i := 0; i < 2; i++ {
			wg.Add(1)
			go func() {
				defer wg.Done()
				mu.RLock()
				n := atomic.AddInt32(&readers, 1)
				for {
					m := atomic.LoadInt32(&max)
					if n <= m || atomic.CompareAndSwapInt32(&max, m, n) {
						break
					}
				}
				yield()
				atomic.AddInt32(&readers, -1)
				mu.RUnlock()
			}()
		}
		wg.Add(1)
		go func() { defer wg.Done(); mu.Lock(); mu.Unlock() }()
		wg.Wait()
		return fmt.Sprintf("max-readers%d", atomic.LoadInt32(&max))
	}},
	{"once", func(yield func()) string {
		var once sync.Once
		var n int32
		var wg sync.WaitGroup
		var who [2]bool
		for i := 0; i < 2; i++ {
			wg.Add(1)
			go func(i int) {
				defer wg.Done()
				once.Do(func() { atomic.AddInt32(&n, 1); who[i] = true })
			}(i)
		}
		wg.Wait()
		return fmt.Sprintf("ran%d/%v%v", n, who[0], who[1])
	}},
	{"atomic-load-then-store-is-not-add", func(yield func()) string {
		var c atomic.Int64
		var wg sync.WaitGroup
		for i := 0; i < 2; i++ {
			wg.Add(1)
			go func() { defer wg.Done(); v := c.Load(); yield(); c.Store(v + 1) }()
		}
		wg.Wait()
		return fmt.Sprint(c.Load())
	}},
	{"cas-winner", func(yield func()) string {
		var c atomic.Int32
		var wins [2]bool
		var wg sync.WaitGroup
		for i := 0; i < 2; i++ {
			wg.Add(1)
			go func(i int) { defer wg.Done(); wins[i] = c.CompareAndSwap(0, int32(i+1)) }(i)
		}
		wg.Wait()
		return fmt.Sprintf("%v%v/%d", wins[0], wins[1], c.Load())
	}},
	{"context-cancel-wakes-select", func(yield func()) string {
		ctx, cancel := context.WithCancel(context.Background())
		ch := make(chan int)
		res := make(chan string)
		go func() {
			select {
			case <-ctx.Done():
				res <- "cancelled:" + ctx.Err().Error()
			case v := <-ch:
				res <- fmt.Sprintf("value%d", v)
			}
		}()
		yield()
		go cancel()
		select {
		case ch <- 1:
		case <-ctx.Done():
		}
		return <-res
	}},
	{"pool-put-get", func(yield func()) string {
		p := sync.Pool{New: func() any { return "new" }}
		p.Put("old")
		return p.Get().(string)
	}},
	{"waitgroup-reuse", func(yield func()) string {
		var wg sync.WaitGroup
		var a, b int32
		wg.Add(1)
		go func() { defer wg.Done(); atomic.StoreInt32(&a, 1) }()
		wg.Wait()
		wg.Add(1)
		go func() { defer wg.Done(); atomic.StoreInt32(&b, atomic.LoadInt32(&a)+1) }()
		wg.Wait()
		return fmt.Sprintf("%d%d", a, b)
	}},
	{"nil-channel-in-select", func(yield func()) string {
		var never chan int
		ch := make(chan int, 1)
		ch <- 3
		select {
		case v := <-never:
			return fmt.Sprintf("never%d", v)
		case v := <-ch:
			return fmt.Sprintf("ch%d", v)
		}
	}},
	{"three-way-handover", func(yield func()) string {
		// the shape tasklane uses: a producer offers to its own consumer first, then to anybody
		own, shared, quit := make(chan int), make(chan int), make(chan int)
		got := make(chan string, 2)
		go func() { // own consumer, busy for a while
			yield()
			select {
			case v := <-own:
				got <- fmt.Sprintf("own%d", v)
			case v := <-shared:
				got <- fmt.Sprintf("own-via-shared%d", v)
			case <-quit:
				got <- "own-none"
			}
		}()
		go func() { // another consumer
			select {
			case v := <-shared:
				got <- fmt.Sprintf("other%d", v)
			default:
				got <- "other-idle"
			}
		}()
		r := ""
		select {
		case own <- 1:
			r = "fast"
		default:
			select {
			case own <- 1:
				r = "slow-own"
			case shared <- 1:
				r = "slow-shared"
			}
		}
		close(quit)
		return join([]string{r, <-got, <-got})
	}},
	{"cond-signal-one-of-two-waiters", func(yield func()) string {
		var mu sync.Mutex
		cond := sync.NewCond(&mu)
		ready, woken := 0, 0
		var wg sync.WaitGroup
		for i := 0; i < 2; i++ {
			wg.Add(1)
			go func() {
				defer wg.Done()
				mu.Lock()
				for ready == 0 {
					cond.Wait()
				}
				ready--
				woken++
				mu.Unlock()
			}()
		}
		yield()
		mu.Lock()
		ready = 1
		mu.Unlock()
		cond.Signal()
		yield()
		mu.Lock()
		ready++
		mu.Unlock()
		cond.Broadcast()
		wg.Wait()
		return fmt.Sprintf("woken%d/ready%d", woken, ready)
	}},
	{"syncmap-loadorstore-race", func(yield func()) string {
		var m sync.Map
		res := make(chan string, 2)
		for i := 1; i <= 2; i++ {
			go func(i int) {
				v, loaded := m.LoadOrStore("k", i)
				res <- fmt.Sprintf("%d:%v", v, loaded)
			}(i)
		}
		a, b := <-res, <-res
		n := 0
		m.Range(func(k, v any) bool { n++; return true })
		return join([]string{a, b}) + fmt.Sprintf("/n%d", n)
	}},
	{"oncevalue-two-callers", func(yield func()) string {
		var calls atomic.Int32
		f := sync.OnceValue(func() int { return int(calls.Add(1)) })
		res := make(chan int, 2)
		go func() { res <- f() }()
		go func() { res <- f() }()
		return fmt.Sprintf("%d%d/calls%d", <-res, <-res, calls.Load())
	}},
	{"context-afterfunc-and-cause", func(yield func()) string {
		ctx, cancel := context.WithCancelCause(context.Background())
		child, cancelChild := context.WithCancel(context.WithValue(ctx, "k", "v"))
		defer cancelChild()
		ran := make(chan string, 1)
		stop := context.AfterFunc(child, func() { ran <- fmt.Sprint(context.Cause(child), child.Value("k")) })
		yield()
		cancel(fmt.Errorf("why"))
		<-child.Done()
		r := <-ran
		return fmt.Sprintf("%s/stop=%v/err=%v", r, stop(), child.Err())
	}},
	{"context-child-of-cancelled-parent", func(yield func()) string {
		ctx, cancel := context.WithCancel(context.Background())
		cancel()
		child, cancelChild := context.WithCancel(ctx)
		defer cancelChild()
		select {
		case <-child.Done():
			return "done:" + child.Err().Error()
		default:
			return "not-done"
		}
	}},
}
