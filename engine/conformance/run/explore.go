//go:build explore

package main

import (
	"verif/engine/conformance/progs"
	"verif/engine/shim/vsched"
)

func collect(int) map[string]map[string]int {
	out := map[string]map[string]int{}
	for _, p := range progs.Progs {
		p := p
		res := vsched.Explore(vsched.Config{Name: p.Name, Bound: -1, Sleep: true}, func(c *vsched.Ctx) {
			r := p.Run(func() { vsched.Yield("yield") })
			c.Outcome(r)
		})
		out[p.Name] = res.Outcomes
		if len(res.Failures) > 0 {
			out[p.Name]["FAILURE: "+res.Failures[0].Msg] = 1
		}
		if !res.Complete {
			out[p.Name]["INCOMPLETE"] = 1
		}
	}
	return out
}
