// Command run executes the conformance programs either natively (real runtime, many runs)
// or under the vsched explorer (the binary is then built with the instrumenting overlay and
// -tags explore), and prints the set of outcomes per program as JSON.
package main

import (
	"encoding/json"
	"flag"
	"os"
)

var runs = flag.Int("runs", 3000, "native runs per program")

func main() {
	flag.Parse()
	json.NewEncoder(os.Stdout).Encode(collect(*runs))
}
