//go:build !explore

package main

import (
	"runtime"

	"verif/engine/conformance/progs"
)

func collect(runs int) map[string]map[string]int {
	out := map[string]map[string]int{}
	for _, p := range progs.Progs {
		out[p.Name] = map[string]int{}
		for i := 0; i < runs; i++ {
			// vary how eagerly the main goroutine yields
			k := i % 4
			y := func() {
				for j := 0; j < k; j++ {
					runtime.Gosched()
				}
			}
			runtime.GOMAXPROCS(1 + i%4)
			out[p.Name][p.Run(y)]++
		}
	}
	return out
}
