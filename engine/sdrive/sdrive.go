// Package sdrive is the driver shared by all schedule-exploration (shape S) checks:
// it runs a list of scenarios under vsched at iterated deviation bounds, shards large
// ones over processes, merges the results, writes the evidence file and reports
// violations with replayable schedules.
package sdrive

import (
	"encoding/json"
	"flag"
	"fmt"
	"os"
	"sort"
	"strings"
	"time"

	"verif/engine/shim/vsched"
	"verif/engine/vcommon"
)

// Plan says how deep one tier explores a scenario.
type Plan struct {
	Wide   bool  // wide scenarios: every alternative beyond the first of a thread also costs one deviation
	Delay  bool  // count deviations as delays (skipped runnable threads) instead of preemptions
	Bounds []int // deviation bounds run in order (-1 = unbounded); the last one may be sharded
	Shards int   // processes for the last bound (0/1 = in-process)
}

type Scenario struct {
	Name       string
	Props      []string
	About      string
	Quick      Plan
	Thorough   Plan
	TimersLive bool
	AllowPanic bool
	AllowRace  bool
	// NoSleep turns the sleep-set reduction off (scenarios whose oracle is an invariant over
	// intermediate global states rather than end states, local assertions and monitor objects).
	NoSleep bool
	Body    func(c *vsched.Ctx)
	// MinOutcomes is the number of distinct end-state labels the scenario must
	// produce for the exploration to count as non-vacuous (default 1).
	MinOutcomes int
}

var (
	scenFlag    = flag.String("scen", "", "worker: scenario name")
	boundsFlag  = flag.String("bounds", "0", "worker: deviation bounds to run in order")
	jobCapFlag  = flag.Float64("jobcap", 0, "worker: seconds this job may use (a fair share of the tier's budget)")
	promoteFlag = flag.String("promote", "", "worker: comma-separated locations whose plain accesses are scheduling points")
)

// RaceViolates says whether a data race (the message starts with vsched.RacePrefix) violates
// property id. The default is no: a property that does not speak of data races is decided by
// its oracle on the interleavings of the racing statements, which are explored once the racy
// location has been promoted to a visible operation.
var RaceViolates = func(id, msg string) bool { return false }

func promoted() []string {
	if *promoteFlag == "" {
		return nil
	}
	return strings.Split(*promoteFlag, ",")
}

// raceLocation extracts the location's name from a data race message ("" if msg is none).
func raceLocation(msg string) string {
	if !strings.HasPrefix(msg, vsched.RacePrefix) {
		return ""
	}
	n := msg[len(vsched.RacePrefix):]
	if i := strings.Index(n, ": "); i >= 0 {
		n = n[:i]
	}
	return strings.TrimSuffix(n, "(atomic access)")
}

type jobT struct {
	scen   *Scenario
	bounds []int
	shard  int
	n      int
}

type job struct {
	scen  *Scenario
	bound int
	shard int
	n     int
}

type scenReport struct {
	Name           string         `json:"scenario"`
	About          string         `json:"about,omitempty"`
	Threads        int            `json:"threads"`
	BoundsRun      []int          `json:"bounds_run"`
	BoundCompleted string         `json:"bound_completed"`
	Executions     int            `json:"executions"`
	States         int            `json:"distinct_states"`
	Transitions    int            `json:"transitions"`
	Pruned         int            `json:"pruned_by_state_cache"`
	MaxDepth       int            `json:"max_depth"`
	Outcomes       map[string]int `json:"end_states"`
	Complete       bool           `json:"complete"`
	WallS          float64        `json:"wall_s"`
}

func plan(s *Scenario) Plan {
	if vcommon.Thorough() && len(s.Thorough.Bounds) > 0 {
		return s.Thorough
	}
	return s.Quick
}

// Budget is the fraction of the tier's time cap the schedule scenarios may use (checks that
// also run a history search afterwards lower it).
var Budget = 1.0

var jobDeadline time.Time

func deadline() time.Time {
	d := vcommon.Start.Add(time.Duration(float64(vcommon.Deadline().Sub(vcommon.Start)) * Budget))
	if !jobDeadline.IsZero() && jobDeadline.Before(d) {
		return jobDeadline
	}
	return d
}

func cfgFor(s *Scenario, bound, shard, n int) vsched.Config {
	return vsched.Config{Name: s.Name, Bound: bound, Delay: plan(s).Delay, AltCost: plan(s).Wide, Sleep: bound < 0 && !s.NoSleep && os.Getenv("VERIF_SLEEP") != "0", TimersLive: s.TimersLive, AllowPanic: s.AllowPanic, AllowRace: s.AllowRace, Promote: promoted(), RaceFatal: func(m string) bool { return RaceViolates(*vcommon.ID, m) },
		Deadline: deadline(), Shard: shard, NShards: n}
}

func boundName(b int) string {
	if b < 0 {
		return "unbounded"
	}
	return fmt.Sprint(b)
}

// Main runs the scenarios that serve property *vcommon.ID.
func Main(level string, all []Scenario, assumptions []string) {
	cov, viols := Collect(all)
	id := *vcommon.ID
	code, nNew := vcommon.Report(id, viols)
	vcommon.WriteEvidence(&vcommon.Evidence{PropertyID: id, Level: level, Coverage: cov, Assumptions: assumptions, Violations: nNew})
	os.Exit(code)
}

// Collect runs the scenarios that serve property *vcommon.ID and returns coverage and
// violations. In worker or replay mode it does the work and exits the process.
func Collect(all []Scenario) (map[string]any, []vcommon.Violation) {
	if !flag.Parsed() {
		flag.Parse()
	}
	id := *vcommon.ID
	var scens []*Scenario
	for i := range all {
		for _, p := range all[i].Props {
			if p == id {
				scens = append(scens, &all[i])
			}
		}
	}
	if len(scens) == 0 {
		vcommon.Infra("no scenario serves %s", id)
	}
	find := func(name string) *Scenario {
		for _, s := range scens {
			if s.Name == name {
				return s
			}
		}
		vcommon.Infra("unknown scenario %q", name)
		return nil
	}
	// ---- replay mode
	if *vcommon.ReplayF != "" {
		data, err := os.ReadFile(*vcommon.ReplayF)
		if err != nil {
			vcommon.Infra("%v", err)
		}
		var v struct {
			Scenario string
			Witness  struct {
				Choices []int
				Bound   int
			}
		}
		if err := json.Unmarshal(data, &v); err != nil {
			vcommon.Infra("%v", err)
		}
		s := find(v.Scenario)
		fail, steps := vsched.Replay(cfgFor(s, -1, 0, 1), s.Body, v.Witness.Choices)
		for i, st := range steps {
			fmt.Printf("%3d %s\n", i, st)
		}
		if fail != "" {
			fmt.Printf("REPRODUCED: %s\n", fail)
			os.Exit(1)
		}
		fmt.Println("not reproduced: the schedule completes without violation")
		os.Exit(0)
	}
	// ---- worker mode: run the given bounds of one scenario, print one Result per bound
	if i, n, worker := vcommon.ShardSpec(); worker {
		if *jobCapFlag > 0 {
			jobDeadline = time.Now().Add(time.Duration(*jobCapFlag * float64(time.Second)))
		}
		s := find(*scenFlag)
		var out []*vsched.Result
		for _, bs := range strings.Split(*boundsFlag, ",") {
			var b int
			fmt.Sscan(bs, &b)
			r := vsched.Explore(cfgFor(s, b, i, n), s.Body)
			out = append(out, r)
			if len(r.Failures) > 0 || !r.Complete {
				break
			}
		}
		json.NewEncoder(os.Stdout).Encode(out)
		os.Exit(0)
	}
	// ---- coordinator: every scenario (and every shard of its last bound) is one process
	var jobs []jobT
	for _, s := range scens {
		p := plan(s)
		if p.Shards > 1 && len(p.Bounds) > 0 {
			if len(p.Bounds) > 1 {
				jobs = append(jobs, jobT{s, p.Bounds[:len(p.Bounds)-1], 0, 1})
			}
			for k := 0; k < p.Shards; k++ {
				jobs = append(jobs, jobT{s, p.Bounds[len(p.Bounds)-1:], k, p.Shards})
			}
		} else {
			jobs = append(jobs, jobT{s, p.Bounds, 0, 1})
		}
	}
	var reports []scenReport
	var viols []vcommon.Violation
	var samples []any
	allComplete := true
	var promotedLocs []string
	var raceNotes []any
	for round := 0; ; round++ {
		var newLocs []string
		reports, viols, samples, allComplete, newLocs, raceNotes = runRound(id, scens, jobs, promotedLocs, raceNotes)
		if len(newLocs) == 0 {
			break
		}
		if round >= 6 {
			// still new racy locations after seven rounds: the scenarios that stopped at them were
			// not explored to their bounds
			allComplete = false
			fmt.Printf("WARNING: data races on further locations (%s) after %d rounds; exploration is incomplete\n", strings.Join(newLocs, ", "), round+1)
			break
		}
		promotedLocs = append(promotedLocs, newLocs...)
		sort.Strings(promotedLocs)
		fmt.Printf("NOTE: data race on %s: its plain accesses become scheduling points and the scenarios are explored again\n", strings.Join(newLocs, ", "))
	}
	cov := map[string]any{}
	st, tr, ex, dn := 0, 0, 0, 0
	for _, r := range reports {
		st += r.States
		tr += r.Transitions
		ex += r.Executions
		dn += len(r.Outcomes)
	}
	cov["states"] = st
	cov["transitions"] = tr
	cov["traces_validated_against_impl"] = ex
	cov["evaluations"] = ex
	cov["distinct_nontrivial"] = dn
	cov["rule"] = "every execution is a complete run of the instrumented real code under the controlled scheduler; states = distinct happens-before trace prefixes (state-cache keys); distinct_nontrivial = distinct end-state labels over all scenarios"
	cov["exhaustive"] = allComplete
	var vac, rn []any
	for _, n := range raceNotes {
		if m, ok := n.(map[string]any); ok && m["vacuity_warning"] != nil {
			dup := false
			for _, v := range vac {
				dup = dup || v == m["vacuity_warning"]
			}
			if !dup {
				vac = append(vac, m["vacuity_warning"])
			}
		} else {
			rn = append(rn, n)
		}
	}
	if len(vac) > 0 {
		cov["vacuity_warnings"] = vac
	}
	if raceNotes = rn; len(raceNotes) > 0 {
		cov["data_races_promoted"] = raceNotes
		cov["data_race_note"] = "data races were found on these locations; " + id + " does not speak of data races, so the plain accesses of the locations were made scheduling points (statement granularity) and the scenarios explored again; torn or reordered accesses below statement granularity are not modelled"
	}
	cov["scenarios"] = reports
	if len(samples) == 0 {
		samples = append(samples, "no sample (violation found before a sample was taken)")
	}
	cov["samples"] = samples
	sort.Slice(reports, func(i, j int) bool { return reports[i].Name < reports[j].Name })
	for _, r := range reports {
		fmt.Printf("%-28s threads=%d bound=%-9s execs=%-8d states=%-8d transitions=%-9d end-states=%d complete=%v %.1fs\n",
			r.Name, r.Threads, r.BoundCompleted, r.Executions, r.States, r.Transitions, len(r.Outcomes), r.Complete, r.WallS)
	}
	return cov, viols
}

// runRound runs every job once (plain accesses of the promoted locations being scheduling
// points) and merges the results. Data races that do not violate the property by themselves
// are returned as locations to promote.
func runRound(id string, scens []*Scenario, jobs []jobT, promote []string, raceNotes []any) (reports []scenReport, viols []vcommon.Violation, samples []any, allComplete bool, newLocs []string, notes []any) {
	notes = raceNotes
	// every job gets a fair share of what is left of the budget when it starts: the pool runs
	// NProc jobs at a time, so with w waves of jobs still to come each may use 1/w of the rest
	// (jobs that finish early leave their share to the later ones)
	var args [][]string
	for _, j := range jobs {
		var bs []string
		for _, b := range j.bounds {
			bs = append(bs, fmt.Sprint(b))
		}
		args = append(args, []string{"-scen", j.scen.Name, "-bounds", strings.Join(bs, ","), "-shard", fmt.Sprintf("%d/%d", j.shard, j.n), "-promote", strings.Join(promote, ",")})
	}
	share := func(remaining int) []string {
		waves := (remaining + vcommon.NProc() - 1) / vcommon.NProc()
		jobCap := time.Until(deadline()).Seconds() / float64(waves)
		if jobCap < 5 {
			jobCap = 5
		}
		return []string{"-jobcap", fmt.Sprintf("%.1f", jobCap)}
	}
	outs := vcommon.RunJobsWith(args, share)
	allComplete = true
	for _, s := range scens {
		p := plan(s)
		rep := scenReport{Name: s.Name, About: s.About, Outcomes: map[string]int{}, Complete: true}
		failed := false
		perBound := map[int][]*vsched.Result{}
		for ji, j := range jobs {
			if j.scen != s {
				continue
			}
			var rs []*vsched.Result
			if err := json.Unmarshal(outs[ji], &rs); err != nil {
				vcommon.Infra("bad worker output: %v\n%s", err, outs[ji])
			}
			for _, r := range rs {
				perBound[r.Bound] = append(perBound[r.Bound], r)
			}
		}
		for bi, b := range p.Bounds {
			last := bi == len(p.Bounds)-1
			results := perBound[b]
			if len(results) == 0 {
				rep.Complete = false
				allComplete = false
				break
			}
			rep.BoundsRun = append(rep.BoundsRun, b)
			complete := true
			rep.Outcomes = map[string]int{}
			for _, r := range results {
				rep.Executions += r.Execs
				rep.Transitions += r.Transitions
				rep.Pruned += r.Pruned
				rep.States += r.States
				if r.WallS > rep.WallS {
					rep.WallS = r.WallS
				}
				if r.MaxDepth > rep.MaxDepth {
					rep.MaxDepth = r.MaxDepth
				}
				if r.MaxThreads > rep.Threads {
					rep.Threads = r.MaxThreads
				}
				for k, v := range r.Outcomes {
					rep.Outcomes[k] += v
				}
				complete = complete && r.Complete
				for _, f := range r.Failures {
					failed = true
					if loc := raceLocation(f.Msg); loc != "" && !RaceViolates(id, f.Msg) {
						// not a violation of this property by itself: explore the racing statements' interleavings
						known := false
						for _, l := range newLocs {
							known = known || l == loc
						}
						if !known {
							newLocs = append(newLocs, loc)
							notes = append(notes, map[string]any{"scenario": s.Name, "location": loc, "race": firstLine(f.Msg)})
						}
						continue
					}
					viols = append(viols, vcommon.Violation{
						Scenario:    s.Name,
						Fingerprint: s.Name + "|" + firstLine(f.Msg),
						Message:     f.Msg + "\nschedule (" + fmt.Sprint(f.Deviations) + " deviations):\n" + strings.Join(f.Steps, "\n"),
						Witness:     map[string]any{"choices": f.Choices, "bound": b, "steps": f.Steps},
					})
				}
				if len(r.SampleTrace) > 0 && len(samples) < 6 && last {
					samples = append(samples, map[string]any{"scenario": s.Name, "default_schedule": r.SampleTrace})
					last = false
				}
			}
			if complete && len(results) >= 1 {
				rep.BoundCompleted = boundName(b)
				if b >= 0 && p.Delay {
					rep.BoundCompleted += " delays"
				} else if b >= 0 {
					rep.BoundCompleted += " preemptions"
				}
			} else {
				rep.Complete = false
				allComplete = false
			}
			if failed || !complete {
				break
			}
		}
		min := s.MinOutcomes
		if min == 0 {
			min = 1
		}
		if !failed && rep.Complete && len(rep.Outcomes) < min {
			// fewer distinct end states than this code base is known to produce: the scenario may no
			// longer make the operations collide. That weakens the evidence, it is not a verdict.
			w := fmt.Sprintf("scenario %s produced %d distinct end states, at least %d were expected", s.Name, len(rep.Outcomes), min)
			fmt.Println("WARNING: possibly vacuous exploration: " + w)
			notes = append(notes, map[string]any{"vacuity_warning": w})
		}
		reports = append(reports, rep)
	}
	return
}

func firstLine(s string) string {
	if i := strings.IndexByte(s, '\n'); i >= 0 {
		return s[:i]
	}
	return s
}
