// Package vatomic mirrors sync/atomic on top of vsched. Every operation is a
// scheduling point; loads acquire, stores release, read-modify-writes do both.
package vatomic

import (
	"reflect"
	"sync/atomic"
	"unsafe"

	"verif/engine/shim/vsched"
)

type cell struct {
	ep  uint64
	obj *vsched.Obj
}

func (c *cell) o() *vsched.Obj {
	if e := vsched.Epoch(); c.ep != e || c.obj == nil {
		c.ep = e
		c.obj = vsched.NewObj("atomic")
	}
	return c.obj
}

const (
	kLoad = iota
	kStore
	kRMW
)

func do(o *vsched.Obj, name string, kind int, f func()) {
	vsched.Post(&vsched.Op{Name: name, Obj: o, ReadOnly: kind == kLoad,
		Exec: func(t *vsched.Thread, _ int) {
			if kind != kStore {
				t.Acquire(o.VC)
			}
			f()
			if kind != kLoad {
				t.Release(&o.VC)
			}
		}})
}

// ---- address-based API: one scheduler object per address and execution

var addrObjs = map[uintptr]*cell{}
var addrEpoch uint64

func objOf(p unsafe.Pointer) *vsched.Obj {
	if e := vsched.Epoch(); e != addrEpoch {
		addrObjs = map[uintptr]*cell{}
		addrEpoch = e
	}
	c := addrObjs[uintptr(p)]
	if c == nil {
		c = &cell{}
		addrObjs[uintptr(p)] = c
	}
	return c.o()
}

func sched() bool { return vsched.Mode() == vsched.ModeSched }
func free() bool  { return vsched.Mode() == vsched.ModeFree }

type integer interface {
	~int32 | ~int64 | ~uint32 | ~uint64 | ~uintptr
}

func gLoad[T any](p *T, real func() T) (r T) {
	if sched() {
		vsched.AtomicAccess(unsafe.Pointer(p), false)
		do(objOf(unsafe.Pointer(p)), "atomic.Load", kLoad, func() { r = *p })
		return r
	}
	if free() {
		return real()
	}
	return *p
}

func gStore[T any](p *T, v T, real func()) {
	if sched() {
		vsched.AtomicAccess(unsafe.Pointer(p), true)
		do(objOf(unsafe.Pointer(p)), "atomic.Store", kStore, func() { *p = v })
		return
	}
	if free() {
		real()
	}
}

func gAdd[T integer](p *T, d T, real func() T) (r T) {
	if sched() {
		vsched.AtomicAccess(unsafe.Pointer(p), true)
		do(objOf(unsafe.Pointer(p)), "atomic.Add", kRMW, func() { *p += d; r = *p })
		return r
	}
	if free() {
		return real()
	}
	return *p
}

func gBit[T integer](p *T, m T, and bool, real func() T) (old T) {
	if sched() {
		vsched.AtomicAccess(unsafe.Pointer(p), true)
		do(objOf(unsafe.Pointer(p)), "atomic.And/Or", kRMW, func() {
			old = *p
			if and {
				*p &= m
			} else {
				*p |= m
			}
		})
		return old
	}
	if free() {
		return real()
	}
	return *p
}

func AndInt32(p *int32, m int32) int32 {
	return gBit(p, m, true, func() int32 { return atomic.AndInt32(p, m) })
}
func AndUint32(p *uint32, m uint32) uint32 {
	return gBit(p, m, true, func() uint32 { return atomic.AndUint32(p, m) })
}
func AndInt64(p *int64, m int64) int64 {
	return gBit(p, m, true, func() int64 { return atomic.AndInt64(p, m) })
}
func AndUint64(p *uint64, m uint64) uint64 {
	return gBit(p, m, true, func() uint64 { return atomic.AndUint64(p, m) })
}
func OrInt32(p *int32, m int32) int32 {
	return gBit(p, m, false, func() int32 { return atomic.OrInt32(p, m) })
}
func OrUint32(p *uint32, m uint32) uint32 {
	return gBit(p, m, false, func() uint32 { return atomic.OrUint32(p, m) })
}
func OrInt64(p *int64, m int64) int64 {
	return gBit(p, m, false, func() int64 { return atomic.OrInt64(p, m) })
}
func OrUint64(p *uint64, m uint64) uint64 {
	return gBit(p, m, false, func() uint64 { return atomic.OrUint64(p, m) })
}

func gSwap[T any](p *T, v T, real func() T) (r T) {
	if sched() {
		vsched.AtomicAccess(unsafe.Pointer(p), true)
		do(objOf(unsafe.Pointer(p)), "atomic.Swap", kRMW, func() { r = *p; *p = v })
		return r
	}
	if free() {
		return real()
	}
	return *p
}

func gCAS[T comparable](p *T, old, new T, real func() bool) (ok bool) {
	if sched() {
		vsched.AtomicAccess(unsafe.Pointer(p), true)
		do(objOf(unsafe.Pointer(p)), "atomic.CompareAndSwap", kRMW, func() {
			if *p == old {
				*p = new
				ok = true
			}
		})
		return ok
	}
	if free() {
		return real()
	}
	return false
}

func LoadInt32(p *int32) int32    { return gLoad(p, func() int32 { return atomic.LoadInt32(p) }) }
func LoadInt64(p *int64) int64    { return gLoad(p, func() int64 { return atomic.LoadInt64(p) }) }
func LoadUint32(p *uint32) uint32 { return gLoad(p, func() uint32 { return atomic.LoadUint32(p) }) }
func LoadUint64(p *uint64) uint64 { return gLoad(p, func() uint64 { return atomic.LoadUint64(p) }) }
func LoadUintptr(p *uintptr) uintptr {
	return gLoad(p, func() uintptr { return atomic.LoadUintptr(p) })
}

func StoreInt32(p *int32, v int32)       { gStore(p, v, func() { atomic.StoreInt32(p, v) }) }
func StoreInt64(p *int64, v int64)       { gStore(p, v, func() { atomic.StoreInt64(p, v) }) }
func StoreUint32(p *uint32, v uint32)    { gStore(p, v, func() { atomic.StoreUint32(p, v) }) }
func StoreUint64(p *uint64, v uint64)    { gStore(p, v, func() { atomic.StoreUint64(p, v) }) }
func StoreUintptr(p *uintptr, v uintptr) { gStore(p, v, func() { atomic.StoreUintptr(p, v) }) }

func AddInt32(p *int32, d int32) int32 {
	return gAdd(p, d, func() int32 { return atomic.AddInt32(p, d) })
}
func AddInt64(p *int64, d int64) int64 {
	return gAdd(p, d, func() int64 { return atomic.AddInt64(p, d) })
}
func AddUint32(p *uint32, d uint32) uint32 {
	return gAdd(p, d, func() uint32 { return atomic.AddUint32(p, d) })
}
func AddUint64(p *uint64, d uint64) uint64 {
	return gAdd(p, d, func() uint64 { return atomic.AddUint64(p, d) })
}
func AddUintptr(p *uintptr, d uintptr) uintptr {
	return gAdd(p, d, func() uintptr { return atomic.AddUintptr(p, d) })
}

func SwapInt32(p *int32, v int32) int32 {
	return gSwap(p, v, func() int32 { return atomic.SwapInt32(p, v) })
}
func SwapInt64(p *int64, v int64) int64 {
	return gSwap(p, v, func() int64 { return atomic.SwapInt64(p, v) })
}
func SwapUint32(p *uint32, v uint32) uint32 {
	return gSwap(p, v, func() uint32 { return atomic.SwapUint32(p, v) })
}
func SwapUint64(p *uint64, v uint64) uint64 {
	return gSwap(p, v, func() uint64 { return atomic.SwapUint64(p, v) })
}

func CompareAndSwapInt32(p *int32, o, n int32) bool {
	return gCAS(p, o, n, func() bool { return atomic.CompareAndSwapInt32(p, o, n) })
}
func CompareAndSwapInt64(p *int64, o, n int64) bool {
	return gCAS(p, o, n, func() bool { return atomic.CompareAndSwapInt64(p, o, n) })
}
func CompareAndSwapUint32(p *uint32, o, n uint32) bool {
	return gCAS(p, o, n, func() bool { return atomic.CompareAndSwapUint32(p, o, n) })
}
func CompareAndSwapUint64(p *uint64, o, n uint64) bool {
	return gCAS(p, o, n, func() bool { return atomic.CompareAndSwapUint64(p, o, n) })
}

// ---- typed API

type Bool struct {
	_ noCopy
	v uint32
}

type noCopy struct{}

func (*noCopy) Lock()   {}
func (*noCopy) Unlock() {}

func b32(b bool) uint32 {
	if b {
		return 1
	}
	return 0
}

func (x *Bool) Load() bool       { return LoadUint32(&x.v) != 0 }
func (x *Bool) Store(v bool)     { StoreUint32(&x.v, b32(v)) }
func (x *Bool) Swap(v bool) bool { return SwapUint32(&x.v, b32(v)) != 0 }
func (x *Bool) CompareAndSwap(o, n bool) bool {
	return CompareAndSwapUint32(&x.v, b32(o), b32(n))
}

type Int32 struct {
	_ noCopy
	v int32
}

func (x *Int32) Load() int32                    { return LoadInt32(&x.v) }
func (x *Int32) Store(v int32)                  { StoreInt32(&x.v, v) }
func (x *Int32) Swap(v int32) int32             { return SwapInt32(&x.v, v) }
func (x *Int32) Add(d int32) int32              { return AddInt32(&x.v, d) }
func (x *Int32) And(m int32) int32              { return AndInt32(&x.v, m) }
func (x *Int32) Or(m int32) int32               { return OrInt32(&x.v, m) }
func (x *Int32) CompareAndSwap(o, n int32) bool { return CompareAndSwapInt32(&x.v, o, n) }

type Int64 struct {
	_ noCopy
	v int64
}

func (x *Int64) Load() int64                    { return LoadInt64(&x.v) }
func (x *Int64) Store(v int64)                  { StoreInt64(&x.v, v) }
func (x *Int64) Swap(v int64) int64             { return SwapInt64(&x.v, v) }
func (x *Int64) Add(d int64) int64              { return AddInt64(&x.v, d) }
func (x *Int64) And(m int64) int64              { return AndInt64(&x.v, m) }
func (x *Int64) Or(m int64) int64               { return OrInt64(&x.v, m) }
func (x *Int64) CompareAndSwap(o, n int64) bool { return CompareAndSwapInt64(&x.v, o, n) }

type Uint32 struct {
	_ noCopy
	v uint32
}

func (x *Uint32) Load() uint32                    { return LoadUint32(&x.v) }
func (x *Uint32) Store(v uint32)                  { StoreUint32(&x.v, v) }
func (x *Uint32) Swap(v uint32) uint32            { return SwapUint32(&x.v, v) }
func (x *Uint32) Add(d uint32) uint32             { return AddUint32(&x.v, d) }
func (x *Uint32) And(m uint32) uint32             { return AndUint32(&x.v, m) }
func (x *Uint32) Or(m uint32) uint32              { return OrUint32(&x.v, m) }
func (x *Uint32) CompareAndSwap(o, n uint32) bool { return CompareAndSwapUint32(&x.v, o, n) }

type Uint64 struct {
	_ noCopy
	v uint64
}

func (x *Uint64) Load() uint64                    { return LoadUint64(&x.v) }
func (x *Uint64) Store(v uint64)                  { StoreUint64(&x.v, v) }
func (x *Uint64) Swap(v uint64) uint64            { return SwapUint64(&x.v, v) }
func (x *Uint64) Add(d uint64) uint64             { return AddUint64(&x.v, d) }
func (x *Uint64) And(m uint64) uint64             { return AndUint64(&x.v, m) }
func (x *Uint64) Or(m uint64) uint64              { return OrUint64(&x.v, m) }
func (x *Uint64) CompareAndSwap(o, n uint64) bool { return CompareAndSwapUint64(&x.v, o, n) }

// Pointer mirrors atomic.Pointer[T].
type Pointer[T any] struct {
	_ noCopy
	v unsafe.Pointer
}

func (x *Pointer[T]) Load() *T {
	return (*T)(gLoad(&x.v, func() unsafe.Pointer { return atomic.LoadPointer(&x.v) }))
}
func (x *Pointer[T]) Store(v *T) {
	gStore(&x.v, unsafe.Pointer(v), func() { atomic.StorePointer(&x.v, unsafe.Pointer(v)) })
}
func (x *Pointer[T]) Swap(v *T) *T {
	return (*T)(gSwap(&x.v, unsafe.Pointer(v), func() unsafe.Pointer { return atomic.SwapPointer(&x.v, unsafe.Pointer(v)) }))
}
func (x *Pointer[T]) CompareAndSwap(o, n *T) bool {
	return gCAS(&x.v, unsafe.Pointer(o), unsafe.Pointer(n), func() bool {
		return atomic.CompareAndSwapPointer(&x.v, unsafe.Pointer(o), unsafe.Pointer(n))
	})
}

// Value mirrors atomic.Value, including its panic on a store of an inconsistently typed value.
type Value struct {
	real atomic.Value
	c    cell
	v    any
}

func sameType(a, b any) bool { return a == nil || b == nil || reflect.TypeOf(a) == reflect.TypeOf(b) }

func (x *Value) Load() (r any) {
	if sched() {
		do(x.c.o(), "atomic.Value.Load", kLoad, func() { r = x.v })
		return r
	}
	if free() {
		return x.real.Load()
	}
	return x.v
}

func (x *Value) Store(v any) {
	if v == nil {
		panic("sync/atomic: store of nil value into Value")
	}
	if sched() {
		bad := false
		do(x.c.o(), "atomic.Value.Store", kStore, func() {
			if !sameType(x.v, v) {
				bad = true
				return
			}
			x.v = v
		})
		if bad {
			panic("sync/atomic: store of inconsistently typed value into Value")
		}
		return
	}
	if free() {
		x.real.Store(v)
	}
}

func (x *Value) Swap(v any) (old any) {
	if sched() {
		bad := false
		do(x.c.o(), "atomic.Value.Swap", kRMW, func() {
			if !sameType(x.v, v) {
				bad = true
				return
			}
			old = x.v
			x.v = v
		})
		if bad {
			panic("sync/atomic: swap of inconsistently typed value into Value")
		}
		return old
	}
	if free() {
		return x.real.Swap(v)
	}
	return nil
}

func (x *Value) CompareAndSwap(o, n any) (ok bool) {
	if sched() {
		do(x.c.o(), "atomic.Value.CompareAndSwap", kRMW, func() {
			if x.v == o {
				x.v = n
				ok = true
			}
		})
		return ok
	}
	if free() {
		return x.real.CompareAndSwap(o, n)
	}
	return false
}
