// Package vctx is a context whose Done channel is a scheduler channel and whose
// cancellation is a visible operation of whichever thread calls it.
package vctx

import (
	"context"
	"time"

	"github.com/whoisnian/glb/zzverif/vsched"
)

type Context interface {
	Deadline() (deadline time.Time, ok bool)
	Done() *vsched.Chan[struct{}]
	Err() error
	Value(key any) any
}

type CancelFunc func()

var (
	Canceled         = context.Canceled
	DeadlineExceeded = context.DeadlineExceeded
)

type emptyCtx struct{}

func (emptyCtx) Deadline() (time.Time, bool)  { return time.Time{}, false }
func (emptyCtx) Done() *vsched.Chan[struct{}] { return nil }
func (emptyCtx) Err() error                   { return nil }
func (emptyCtx) Value(any) any                { return nil }

func Background() Context { return emptyCtx{} }
func TODO() Context       { return emptyCtx{} }

type cancelCtx struct {
	parent   Context
	obj      *vsched.Obj
	done     *vsched.Chan[struct{}]
	err      error
	children []*cancelCtx
	deadline time.Time
	hasDL    bool
}

func (c *cancelCtx) Deadline() (time.Time, bool) {
	if c.hasDL {
		return c.deadline, true
	}
	return c.parent.Deadline()
}
func (c *cancelCtx) Done() *vsched.Chan[struct{}] { return c.done }
func (c *cancelCtx) Value(k any) any              { return c.parent.Value(k) }

func (c *cancelCtx) Err() error {
	var e error
	if !vsched.Post(&vsched.Op{Name: "ctx.Err", Obj: c.obj, ReadOnly: true,
		Exec: func(t *vsched.Thread, _ int) { t.Acquire(c.obj.VC); e = c.err }}) {
		return c.err
	}
	return e
}

func (c *cancelCtx) finish(t *vsched.Thread, err error) {
	if c.err != nil {
		return
	}
	c.err = err
	t.Release(&c.obj.VC)
	vsched.CloseFromExec(t, c.done)
	for _, ch := range c.children {
		ch.finish(t, err)
	}
}

func (c *cancelCtx) cancel(err error, name string) {
	vsched.Post(&vsched.Op{Name: name, Obj: c.obj, Global: true, Exec: func(t *vsched.Thread, _ int) { c.finish(t, err) }})
}

func newCancel(parent Context) *cancelCtx {
	c := &cancelCtx{parent: parent, obj: vsched.NewObj("context"), done: vsched.MakeChan[struct{}]()}
	c.done.SetName("ctx.Done")
	if p, ok := parent.(*cancelCtx); ok {
		p.children = append(p.children, c)
		if p.err != nil {
			c.err = p.err
		}
	}
	return c
}

func WithCancel(parent Context) (Context, CancelFunc) {
	c := newCancel(parent)
	return c, func() { c.cancel(Canceled, "ctx.cancel") }
}

// WithDeadline never expires by itself: the harness calls Expire to explore the
// deadline landing at every point of the protocol.
func WithDeadline(parent Context, d time.Time) (Context, CancelFunc) {
	c := newCancel(parent)
	c.deadline, c.hasDL = d, true
	return c, func() { c.cancel(Canceled, "ctx.cancel") }
}

func WithTimeout(parent Context, d time.Duration) (Context, CancelFunc) {
	return WithDeadline(parent, time.Unix(0, 0).Add(d))
}

// Expire makes ctx end with DeadlineExceeded (a visible operation of the caller).
func Expire(ctx Context) {
	if c, ok := ctx.(*cancelCtx); ok {
		c.cancel(DeadlineExceeded, "ctx.deadline-expires")
	}
}

// RawErr reads the error without a scheduling point (oracle use).
func RawErr(ctx Context) error {
	if c, ok := ctx.(*cancelCtx); ok {
		return c.err
	}
	return nil
}
