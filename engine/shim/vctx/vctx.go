// Package vctx is a context whose Done channel is a scheduler channel and whose
// cancellation is a visible operation of whichever thread calls it.
package vctx

import (
	"context"
	"time"

	"verif/engine/shim/vsched"
)

type Context interface {
	Deadline() (deadline time.Time, ok bool)
	Done() *vsched.Chan[struct{}]
	Err() error
	Value(key any) any
}

type CancelFunc func()

var (
	Canceled         = context.Canceled
	DeadlineExceeded = context.DeadlineExceeded
)

type emptyCtx struct{}

func (emptyCtx) Deadline() (time.Time, bool)  { return time.Time{}, false }
func (emptyCtx) Done() *vsched.Chan[struct{}] { return nil }
func (emptyCtx) Err() error                   { return nil }
func (emptyCtx) Value(any) any                { return nil }

func Background() Context { return emptyCtx{} }
func TODO() Context       { return emptyCtx{} }

type cancelCtx struct {
	parent   Context
	obj      *vsched.Obj
	done     *vsched.Chan[struct{}]
	err      error
	children []*cancelCtx
	deadline time.Time
	hasDL    bool
}

func (c *cancelCtx) Deadline() (time.Time, bool) {
	if c.hasDL {
		return c.deadline, true
	}
	return c.parent.Deadline()
}
func (c *cancelCtx) Done() *vsched.Chan[struct{}] { return c.done }
func (c *cancelCtx) Value(k any) any              { return c.parent.Value(k) }

func (c *cancelCtx) Err() error {
	var e error
	if !vsched.Post(&vsched.Op{Name: "ctx.Err", Obj: c.obj, ReadOnly: true,
		Exec: func(t *vsched.Thread, _ int) { t.Acquire(c.obj.VC); e = c.err }}) {
		return c.err
	}
	return e
}

func (c *cancelCtx) finish(t *vsched.Thread, err error) {
	if c.err != nil {
		return
	}
	c.err = err
	t.Release(&c.obj.VC)
	vsched.CloseFromExec(t, c.done)
	for _, ch := range c.children {
		ch.finish(t, err)
	}
}

func (c *cancelCtx) cancel(err error, name string) {
	vsched.Post(&vsched.Op{Name: name, Obj: c.obj, Global: true, Exec: func(t *vsched.Thread, _ int) { c.finish(t, err) }})
}

func newCancel(parent Context) *cancelCtx {
	c := &cancelCtx{parent: parent, obj: vsched.NewObj("context"), done: vsched.MakeChan[struct{}]()}
	c.done.SetName("ctx.Done")
	if p := unwrap(parent); p != nil {
		p.children = append(p.children, c)
		if p.err != nil {
			// child of a context that has already ended: born ended
			c.err = p.err
			c.done.Close()
		}
	}
	return c
}

func WithCancel(parent Context) (Context, CancelFunc) {
	c := newCancel(parent)
	return c, func() { c.cancel(Canceled, "ctx.cancel") }
}

// WithManualDeadline is for harnesses: the context never expires by itself, the harness
// calls Expire to explore the deadline landing at every point of the protocol.
func WithManualDeadline(parent Context, d time.Time) (Context, CancelFunc) {
	c := newCancel(parent)
	c.deadline, c.hasDL = d, true
	return c, func() { c.cancel(Canceled, "ctx.cancel") }
}

// WithDeadline (what context.WithDeadline / WithTimeout in the code under test become): the
// deadline is a scheduler timer, so it lands when the explorer decides - early at the cost of
// one deviation, at quiescence for free, never when timers are off - watched by a thread of
// its own that ends with the context.
func WithDeadline(parent Context, d time.Time) (Context, CancelFunc) {
	c := newCancel(parent)
	c.deadline, c.hasDL = d, true
	if vsched.Mode() == vsched.ModeSched && c.err == nil {
		tc := vsched.NewTimerChan[time.Time](d)
		vsched.GoNamed("ctx-deadline", func() {
			if s := vsched.Select(false, vsched.RecvCase(tc), vsched.RecvCase(c.done)); s.I == 0 {
				c.cancel(DeadlineExceeded, "ctx.deadline-expires")
			}
		})
	}
	return c, func() { c.cancel(Canceled, "ctx.cancel") }
}

func WithTimeout(parent Context, d time.Duration) (Context, CancelFunc) {
	return WithDeadline(parent, time.Unix(0, 0).Add(d))
}

// WithManualTimeout: see WithManualDeadline.
func WithManualTimeout(parent Context, d time.Duration) (Context, CancelFunc) {
	return WithManualDeadline(parent, time.Unix(0, 0).Add(d))
}

// Expire makes ctx end with DeadlineExceeded (a visible operation of the caller).
func Expire(ctx Context) {
	if c := unwrap(ctx); c != nil {
		c.cancel(DeadlineExceeded, "ctx.deadline-expires")
	}
}

// RawErr reads the error without a scheduling point (oracle use).
func RawErr(ctx Context) error {
	if c := unwrap(ctx); c != nil {
		return c.err
	}
	return nil
}

// ---- the rest of the context API, so that code using it still builds and runs under the scheduler

type valueCtx struct {
	Context
	key, val any
}

func (v *valueCtx) Value(k any) any {
	if k == v.key {
		return v.val
	}
	return v.Context.Value(k)
}

func WithValue(parent Context, key, val any) Context { return &valueCtx{parent, key, val} }

type CancelCauseFunc func(cause error)

var causes = map[*cancelCtx]error{}
var causesEpoch uint64

func setCause(c *cancelCtx, cause error) {
	if e := vsched.Epoch(); e != causesEpoch {
		causes, causesEpoch = map[*cancelCtx]error{}, e
	}
	if _, ok := causes[c]; !ok && cause != nil {
		causes[c] = cause
	}
}

func WithCancelCause(parent Context) (Context, CancelCauseFunc) {
	c := newCancel(parent)
	return c, func(cause error) {
		if RawErr(c) == nil {
			setCause(c, cause)
		}
		c.cancel(Canceled, "ctx.cancel")
	}
}

func unwrap(ctx Context) *cancelCtx {
	for {
		switch x := ctx.(type) {
		case *cancelCtx:
			return x
		case *valueCtx:
			ctx = x.Context
		case withoutCancel:
			return nil
		default:
			return nil
		}
	}
}

// Cause returns the cause given to a CancelCauseFunc of ctx or of an ancestor, else ctx.Err().
func Cause(ctx Context) error {
	err := ctx.Err()
	if err == nil {
		return nil
	}
	for c := unwrap(ctx); c != nil; c = unwrap(c.parent) {
		if e := vsched.Epoch(); e == causesEpoch {
			if cause, ok := causes[c]; ok {
				return cause
			}
		}
	}
	return err
}

type withoutCancel struct{ Context }

func (withoutCancel) Deadline() (time.Time, bool)  { return time.Time{}, false }
func (withoutCancel) Done() *vsched.Chan[struct{}] { return nil }
func (withoutCancel) Err() error                   { return nil }

func WithoutCancel(parent Context) Context { return withoutCancel{parent} }

// AfterFunc runs f in its own thread once ctx has ended; stop reports whether it prevented that.
func AfterFunc(ctx Context, f func()) (stop func() bool) {
	stopC := vsched.MakeChan[struct{}]().SetName("ctx.AfterFunc-stop")
	ran, stopped := false, false
	vsched.GoNamed("ctx-afterfunc", func() {
		if s := vsched.Select(false, vsched.RecvCase(ctx.Done()), vsched.RecvCase(stopC)); s.I == 0 && !stopped {
			ran = true
			f()
		}
	})
	return func() bool {
		if ran || stopped {
			return false
		}
		stopped = true
		stopC.Close()
		return true
	}
}
