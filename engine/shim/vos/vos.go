// Package vos puts the file-system calls of util/osutil behind a fault-injection seam.
// Every call is numbered; a harness can make exactly the i-th call fail (or make a
// copy stop after k bytes), so that every fault position of a scenario is enumerated.
package vos

import (
	"errors"
	"fmt"
	"io"
	"io/fs"
	"os"
)

type File = os.File
type FileMode = os.FileMode

// Fault describes what happens at one numbered call.
type Fault struct {
	Err   error
	After int64 // for copy: bytes copied before the error (-1: fail immediately)
}

var (
	Seq    int                                   // number of calls so far
	Log    []string                              // description of every call
	FailAt map[int]Fault                         // 1-based call number -> fault
	OnCall func(n int, op string, args []string) // observer (e.g. to snapshot the tree before a remove)
)

var ErrInjected = errors.New("injected fault")

func Reset() { Seq, Log, FailAt, OnCall = 0, nil, nil, nil }

func point(op string, args ...string) (Fault, bool) {
	Seq++
	Log = append(Log, fmt.Sprintf("%d:%s%v", Seq, op, args))
	if OnCall != nil {
		OnCall(Seq, op, args)
	}
	f, ok := FailAt[Seq]
	return f, ok
}

func perr(op, path string, f Fault) error {
	e := f.Err
	if e == nil {
		e = ErrInjected
	}
	return &fs.PathError{Op: op, Path: path, Err: e}
}

func Open(name string) (*os.File, error) {
	if f, ok := point("open", name); ok {
		return nil, perr("open", name, f)
	}
	return os.Open(name)
}

func Create(name string) (*os.File, error) {
	if f, ok := point("create", name); ok {
		return nil, perr("open", name, f)
	}
	return os.Create(name)
}

func OpenFile(name string, flag int, perm os.FileMode) (*os.File, error) {
	if f, ok := point("openfile", name, fmt.Sprint(flag)); ok {
		return nil, perr("open", name, f)
	}
	return os.OpenFile(name, flag, perm)
}

func Rename(a, b string) error {
	if f, ok := point("rename", a, b); ok {
		e := f.Err
		if e == nil {
			e = ErrInjected
		}
		return &os.LinkError{Op: "rename", Old: a, New: b, Err: e}
	}
	return os.Rename(a, b)
}

func Remove(name string) error {
	if f, ok := point("remove", name); ok {
		return perr("remove", name, f)
	}
	return os.Remove(name)
}

func RemoveAll(name string) error {
	if f, ok := point("removeall", name); ok {
		return perr("removeall", name, f)
	}
	return os.RemoveAll(name)
}

func Stat(name string) (os.FileInfo, error) {
	if f, ok := point("stat", name); ok {
		return nil, perr("stat", name, f)
	}
	return os.Stat(name)
}

func Lstat(name string) (os.FileInfo, error) {
	if f, ok := point("lstat", name); ok {
		return nil, perr("lstat", name, f)
	}
	return os.Lstat(name)
}

func SameFile(a, b os.FileInfo) bool { return os.SameFile(a, b) }

func ReadFile(name string) ([]byte, error) {
	if f, ok := point("readfile", name); ok {
		return nil, perr("open", name, f)
	}
	return os.ReadFile(name)
}

func WriteFile(name string, data []byte, perm os.FileMode) error {
	if f, ok := point("writefile", name); ok {
		return perr("open", name, f)
	}
	return os.WriteFile(name, data, perm)
}

func Link(a, b string) error {
	if f, ok := point("link", a, b); ok {
		return &os.LinkError{Op: "link", Old: a, New: b, Err: f.Err}
	}
	return os.Link(a, b)
}

func Symlink(a, b string) error {
	if f, ok := point("symlink", a, b); ok {
		return &os.LinkError{Op: "symlink", Old: a, New: b, Err: f.Err}
	}
	return os.Symlink(a, b)
}

func Truncate(name string, n int64) error {
	if f, ok := point("truncate", name); ok {
		return perr("truncate", name, f)
	}
	return os.Truncate(name, n)
}

func Mkdir(name string, perm os.FileMode) error {
	if f, ok := point("mkdir", name); ok {
		return perr("mkdir", name, f)
	}
	return os.Mkdir(name, perm)
}

func MkdirAll(name string, perm os.FileMode) error {
	if f, ok := point("mkdirall", name); ok {
		return perr("mkdir", name, f)
	}
	return os.MkdirAll(name, perm)
}

func Copy(dst io.Writer, src io.Reader) (int64, error) {
	if f, ok := point("copy"); ok {
		e := f.Err
		if e == nil {
			e = ErrInjected
		}
		if f.After <= 0 {
			return 0, e
		}
		n, err := io.CopyN(dst, src, f.After)
		if err != nil && err != io.EOF {
			return n, err
		}
		return n, e
	}
	return io.Copy(dst, src)
}

func CopyN(dst io.Writer, src io.Reader, n int64) (int64, error) {
	if f, ok := point("copyn"); ok {
		e := f.Err
		if e == nil {
			e = ErrInjected
		}
		return 0, e
	}
	return io.CopyN(dst, src, n)
}

func CopyBuffer(dst io.Writer, src io.Reader, buf []byte) (int64, error) { return Copy(dst, src) }

func ReadAll(r io.Reader) ([]byte, error) {
	if f, ok := point("readall"); ok {
		e := f.Err
		if e == nil {
			e = ErrInjected
		}
		return nil, e
	}
	return io.ReadAll(r)
}
