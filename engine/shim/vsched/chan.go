package vsched

import (
	"fmt"
	"reflect"
)

// ---------------------------------------------------------------- channels

type slot struct {
	v  any
	vc VC
}

type chanCore struct {
	obj    *Obj
	name   string
	cap    int
	buf    []slot
	closed bool

	nsent, nrecv int        // completed sends into / receives out of the buffer
	recvVC       map[int]VC // clock of the k-th receive, until the (k+cap)-th send has taken it

	hRQ, hSQ uint64 // commutative hashes of the parked receivers / senders

	// the real channel behind it: used when no scheduler is active (checks that run the
	// instrumented packages sequentially, without exploring schedules)
	rv reflect.Value

	// a channel made outside any execution (package-level variable): its state starts afresh
	// in every execution, on first use
	global bool
	ep     uint64

	// timers
	isTimer  bool
	fired    bool
	stopped  bool
	timerVal any
}

// Chan is the scheduler's channel; instrumented code uses *Chan[T] where the
// original used chan T.
type Chan[T any] struct {
	core *chanCore
}

var chanSeq int

// synced returns k ready for use in the current execution.
func (k *chanCore) synced() *chanCore {
	if k != nil && k.global && S != nil && k.ep != S.epoch {
		k.ep = S.epoch
		k.obj = NewObj("chan")
		k.name = fmt.Sprintf("global-chan#%x", k.obj.ID&0xffff)
		k.buf, k.closed, k.nsent, k.nrecv, k.recvVC, k.hRQ, k.hSQ = nil, false, 0, 0, nil, 0, 0
	}
	return k
}

func newCore(capacity int, kind string) *chanCore {
	if S == nil {
		return &chanCore{cap: capacity, global: true, name: "global-" + kind}
	}
	o := NewObj(kind)
	k := &chanCore{obj: o, cap: capacity}
	k.name = fmt.Sprintf("%s#%x", kind, o.ID&0xffff)
	return k
}

func MakeChan[T any](capacity ...int) *Chan[T] {
	n := 0
	if len(capacity) > 0 {
		n = capacity[0]
	}
	if n < 0 {
		panic("makechan: size out of range")
	}
	k := newCore(n, "chan")
	k.rv = reflect.ValueOf(make(chan T, n))
	return &Chan[T]{core: k}
}

// selectFree is a select statement on the real channels (no scheduler active).
func selectFree(hasDefault bool, cs []Case) Sel {
	rc := make([]reflect.SelectCase, 0, len(cs)+1)
	for _, c := range cs {
		sc := reflect.SelectCase{Dir: reflect.SelectRecv}
		if c.core != nil {
			sc.Chan = c.core.rv
		}
		if c.send {
			sc.Dir = reflect.SelectSend
			if c.core != nil {
				if c.val == nil {
					sc.Send = reflect.Zero(c.core.rv.Type().Elem())
				} else {
					sc.Send = reflect.ValueOf(c.val)
				}
			}
		}
		rc = append(rc, sc)
	}
	if hasDefault {
		rc = append(rc, reflect.SelectCase{Dir: reflect.SelectDefault})
	}
	i, v, ok := reflect.Select(rc)
	if hasDefault && i == len(cs) {
		return Sel{I: -1}
	}
	r := Sel{I: i, Ok: ok}
	if !cs[i].send && v.IsValid() && ok {
		r.V = v.Interface()
	}
	return r
}

// SetName gives the channel a readable name in traces (harness use).
func (c *Chan[T]) SetName(n string) *Chan[T] {
	if c != nil {
		c.core.name = n
	}
	return c
}

// NewTimerChan creates a capacity-1 channel on which v arrives when the scheduler
// decides that the timer fires.
func NewTimerChan[T any](v T) *Chan[T] {
	k := newCore(1, "timer")
	k.rv = reflect.ValueOf(make(chan T, 1))
	k.isTimer = true
	k.timerVal = v
	if S == nil {
		return &Chan[T]{core: k} // never fires by itself; vtime arms a real timer on it
	}
	S.timers = append(S.timers, k)
	return &Chan[T]{core: k}
}

// StopTimer prevents a timer channel from firing; reports whether it had not fired.
func StopTimer[T any](c *Chan[T]) bool {
	if c == nil || !c.core.isTimer {
		return false
	}
	was := !c.core.fired && !c.core.stopped
	c.core.stopped = true
	return was
}

func coreOf[T any](c *Chan[T]) *chanCore {
	if c == nil {
		return nil
	}
	return c.core.synced()
}

// Case is one communication clause of a select.
type Case struct {
	core *chanCore
	send bool
	val  any
}

type Caser interface{ kase() Case }

func (c Case) kase() Case { return c }

// RCase is a receive clause that remembers the element type.
type RCase[T any] struct{ Case }

func RecvCase[T any](c *Chan[T]) RCase[T]  { return RCase[T]{Case{core: coreOf(c)}} }
func SendCase[T any](c *Chan[T], v T) Case { return Case{core: coreOf(c), send: true, val: v} }

// Sel is the outcome of a select.
type Sel struct {
	I        int // chosen clause, -1 for default
	V        any
	Ok       bool
	panicMsg string
}

func (r RCase[T]) Val(s Sel) T {
	if s.V == nil {
		var z T
		return z
	}
	return s.V.(T)
}

func (r RCase[T]) Val2(s Sel) (T, bool) { return r.Val(s), s.Ok }

// Select performs a select statement over cases; operands have already been
// evaluated in source order by the caller.
func Select(hasDefault bool, cases ...Caser) Sel {
	cs := make([]Case, len(cases))
	for i, c := range cases {
		cs[i] = c.kase()
	}
	if S == nil {
		return selectFree(hasDefault, cs)
	}
	o := &Op{isSel: true, cases: cs, hasDefault: hasDefault, Name: "select"}
	if !Post(o) {
		// execution is being torn down: behave as a no-op
		return Sel{I: -1}
	}
	if o.res.panicMsg != "" {
		panic(chanError(o.res.panicMsg))
	}
	return o.res
}

type chanError string

func (e chanError) Error() string { return string(e) }
func (e chanError) RuntimeError() {}

func (c *Chan[T]) Send(v T) { Select(false, SendCase(c, v)) }

func (c *Chan[T]) Recv() T {
	rc := RecvCase(c)
	return rc.Val(Select(false, rc))
}

func (c *Chan[T]) Recv2() (T, bool) {
	rc := RecvCase(c)
	return rc.Val2(Select(false, rc))
}

// Close closes the channel and wakes every parked receiver.
func (c *Chan[T]) Close() {
	if c == nil {
		panic(chanError("close of nil channel"))
	}
	k := c.core.synced()
	if S == nil {
		k.rv.Close()
		return
	}
	var perr string
	ok := Post(&Op{Name: "close " + k.name, Obj: k.obj, Global: true, Exec: func(t *Thread, _ int) {
		if k.closed {
			perr = "close of closed channel"
			return
		}
		closeCore(t, k)
	}})
	if ok && perr != "" {
		panic(chanError(perr))
	}
}

// closeCore marks k closed on behalf of t and completes parked receivers.
func closeCore(t *Thread, k *chanCore) {
	s := S
	k.closed = true
	t.release(&k.obj.VC)
	t.absorb(k.obj.ID, 0xc1, k.obj.hist, k.hRQ, k.hSQ)
	k.obj.hist = mix(k.obj.hist, 0xc105e, t.hid, uint64(t.steps))
	for _, p := range s.threads {
		if p.done || !p.parked || p.pend == nil || p == t {
			continue
		}
		for j, pc := range p.pend.cases {
			if pc.core != k {
				continue
			}
			p.steps++
			p.absorb(k.obj.ID, uint64(j)+0x900, k.obj.hist)
			if pc.send {
				s.unpark(p)
				p.pend.res = Sel{I: j, panicMsg: "send on closed channel"}
			} else {
				p.acquire(k.obj.VC)
				s.finishSel(p, j, nil, false)
			}
			s.extraRun = append(s.extraRun, p)
			break
		}
	}
}

func (c *Chan[T]) Len() int {
	if c == nil {
		return 0
	}
	k := c.core.synced()
	if S == nil {
		return k.rv.Len()
	}
	n := 0
	if !Post(&Op{Name: "len " + k.name, Obj: k.obj, ReadOnly: true, Exec: func(t *Thread, _ int) { n = len(k.buf) }}) {
		return len(k.buf)
	}
	return n
}

func (c *Chan[T]) Cap() int {
	if c == nil {
		return 0
	}
	return c.core.synced().cap
}

// RawLen reads the buffer length without a scheduling point (oracle use only).
func (c *Chan[T]) RawLen() int {
	if c == nil {
		return 0
	}
	return len(c.core.synced().buf)
}

// RawClosed reports whether the channel is closed (oracle use only).
func (c *Chan[T]) RawClosed() bool { return c != nil && c.core.synced().closed }

// CloseFromExec closes c on behalf of t from inside another operation's Exec
// (context cancellation). Closing an already closed channel is a no-op here.
func CloseFromExec[T any](t *Thread, c *Chan[T]) {
	if c == nil || c.core.synced().closed {
		return
	}
	closeCore(t, c.core)
}

// RawItems returns the buffered values (oracle use only).
func (c *Chan[T]) RawItems() []T {
	if c == nil {
		return nil
	}
	out := make([]T, 0, len(c.core.synced().buf))
	for _, s := range c.core.buf {
		if s.v == nil {
			var z T
			out = append(out, z)
		} else {
			out = append(out, s.v.(T))
		}
	}
	return out
}
