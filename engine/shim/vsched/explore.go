package vsched

import (
	"fmt"
	"runtime"
	"runtime/debug"
	"strings"
	"time"
)

// Ctx is handed to the body of each execution.
type Ctx struct {
	s *Sched
}

// OnStep registers an invariant evaluated before every scheduling decision (all
// threads are parked at their next visible operation). Non-empty result = violation.
func (c *Ctx) OnStep(f func() string) { c.s.onStep = append(c.s.onStep, f) }

// OnEnd registers an oracle evaluated at quiescence (no enabled transition).
func (c *Ctx) OnEnd(f func() string) { c.s.onEnd = append(c.s.onEnd, f) }

// AtRest registers f to run as a thread of its own once nothing else can move (before the
// OnEnd callbacks): calls into the code under test that an oracle makes "at rest" are then
// ordinary scheduled operations, whatever primitives the code uses for them.
func (c *Ctx) AtRest(f func()) { c.s.atRest = append(c.s.atRest, f) }

// Outcome adds a label to this execution's outcome (for distinct-outcome statistics).
func (c *Ctx) Outcome(s string) { c.s.outcome = append(c.s.outcome, s) }

// Fail reports a violation from inside a thread.
func (c *Ctx) Fail(msg string) {
	if c.s.fail == "" {
		c.s.fail = msg
	}
}

// Free runs f with no scheduler active: the shims behave like the real primitives. For
// harness code that, at the end of an execution, builds fresh objects of the code under test to
// compute a reference (the threads of the execution are at rest and are not touched).
func Free(f func()) {
	s := S
	S = nil
	defer func() { S = s }()
	f()
}

var resets []func()

func safeReset(f func()) (ok bool) {
	defer func() {
		if recover() != nil {
			ok = false
		}
	}()
	f()
	return true
}

// RegisterReset registers a function that puts the package-level state of an instrumented
// package back to its initial state; it runs before every execution.
func RegisterReset(f func()) { resets = append(resets, f) }

func Fail(msg string) {
	if S != nil && S.fail == "" {
		S.fail = msg
	}
}

type Config struct {
	Name        string
	Sleep       bool // sleep sets (partial-order reduction) on top of the state cache; unbounded searches only
	AltCost     bool // every alternative of one thread beyond its first (rendezvous partner, ready select case) costs one deviation too: with Delay, bound 0 is then exactly one execution
	Delay       bool // delay bounding (every skipped runnable thread costs 1) instead of preemption bounding
	Bound       int  // maximal number of deviations (preemptions, early timers, non-default pool choices); <0 unbounded
	TimersLive  bool // timers may fire (early = one deviation, at quiescence free); false = timers never fire
	NoCache     bool
	Deadline    time.Time
	MaxExecs    int
	Shard       int // this process explores level-2 subtrees with index%NShards==Shard
	NShards     int
	AllowPanic  bool // a panic escaping a thread is an outcome, not a violation
	AllowRace   bool
	RaceFatal   func(msg string) bool // nil: every data race ends the execution as a failure
	Promote     []string              // names of locations whose plain accesses are visible operations (found racy by an earlier run)
	KeepGoing   bool                  // collect up to MaxFailures failures instead of stopping at the first
	MaxFailures int
}

type Failure struct {
	Msg        string   `json:"msg"`
	Choices    []int    `json:"choices"`
	Steps      []string `json:"steps"`
	Deviations int      `json:"deviations"`
}

type Result struct {
	Name        string         `json:"name"`
	Bound       int            `json:"bound"`
	Execs       int            `json:"executions"`
	Pruned      int            `json:"pruned_by_state_cache"`
	Transitions int            `json:"transitions"`
	States      int            `json:"distinct_states"`
	MaxDepth    int            `json:"max_depth"`
	MaxThreads  int            `json:"max_threads"`
	Complete    bool           `json:"complete"`
	Outcomes    map[string]int `json:"outcomes"`
	Failures    []Failure      `json:"failures,omitempty"`
	SampleTrace []string       `json:"sample_trace,omitempty"`
	WallS       float64        `json:"wall_s"`
}

// sleeper is a transition that need not be explored from the current state because an
// equivalent interleaving (it was explored from an ancestor and commutes with everything
// executed since) is already covered.
type sleeper struct {
	id uint64
	fp footprint
}

type stepInfo struct {
	sleep   []sleeper // sleep set before the choice
	allowed []int     // indices (in the enabled list) of the transitions that may be explored here
	alts    []sleeper // identity and footprint of every enabled transition
}

type execResult struct {
	steps   []stepInfo
	trace   []int
	nalts   []int
	costs   [][]int
	descr   []string
	pruned  bool
	fail    string
	outcome string
	threads int
}

type cacheEntry struct {
	rem   int
	sleep []uint64 // ids asleep when the state was (last) explored; nil when sleep sets are off
}

func hasID(ids []uint64, id uint64) bool {
	for _, x := range ids {
		if x == id {
			return true
		}
	}
	return false
}

// runOne executes the prefix, then default choices. With sleep != nil (unbounded searches
// only) it maintains sleep sets: sleep is the sleep set of the state reached by the prefix.
func runOne(cfg *Config, prefix []int, visited map[uint64]cacheEntry, body func(*Ctx), wantDescr bool, useSleep bool, sleep []sleeper) *execResult {
	var steps []stepInfo
	epochCounter++
	// package-level state of the instrumented packages starts afresh (no scheduler active
	// while it is rebuilt: the shims behave like the real primitives)
	S = nil
	for i, f := range resets {
		if f != nil && !safeReset(f) {
			// an initialiser that cannot run twice (it registers something elsewhere): this
			// package's state is no longer rebuilt, as before the reset existed
			resets[i] = nil
		}
	}
	s := &Sched{yield: make(chan *Thread), epoch: epochCounter, timersLive: cfg.TimersLive}
	if len(cfg.Promote) > 0 {
		s.promote = make(map[string]bool, len(cfg.Promote))
		for _, n := range cfg.Promote {
			s.promote[n] = true
		}
	}
	S = s
	ctx := &Ctx{s: s}
	GoNamed("main", func() { body(ctx) })
	var last *Thread
	spent := 0
	pruned := false
	for step := 0; ; step++ {
		for i := 0; i < len(s.threads); i++ {
			if t := s.threads[i]; t.fresh {
				t.fresh = false
				s.runUntilPost(t)
			}
		}
		if s.fail != "" {
			break
		}
		if len(s.races) > 0 && !cfg.AllowRace {
			// a race that violates the property by itself comes first; any other one stops the
			// execution only while its location is not promoted yet (the coordinator promotes it
			// and explores again, then the interleavings of the racing statements are covered)
			for i, m := range s.races {
				if cfg.RaceFatal == nil || cfg.RaceFatal(m) {
					s.fail = s.races[i]
					break
				}
			}
			for i := range s.races {
				if s.fail == "" && !s.promote[s.raceLocs[i]] {
					s.fail = s.races[i]
				}
			}
			if s.fail != "" {
				break
			}
		}
		for _, t := range s.threads {
			if t.panicked && !cfg.AllowPanic && s.fail == "" {
				s.fail = fmt.Sprintf("panic in thread %s: %v", t.Name, t.panicVal)
			}
		}
		if s.fail != "" {
			break
		}
		for _, f := range s.onStep {
			if m := f(); m != "" {
				s.fail = m
				break
			}
		}
		if s.fail != "" {
			break
		}
		var trs []transition
		var costs []int
		lastEnabled := false
		group := 0
		if last != nil && !last.done {
			lt := s.transitionsOf(last, true)
			if len(lt) > 0 {
				lastEnabled = true
				for i, tr := range lt {
					trs = append(trs, tr)
					c := tr.extra
					if cfg.AltCost && i > 0 && !(tr.kind == trGeneric && tr.t.pend.FreeAlts) {
						c++
					}
					costs = append(costs, c)
				}
				group = 1
			}
		}
		// the other threads in round-robin order after the last one
		n := len(s.threads)
		startAt := 0
		if last != nil {
			startAt = last.ID + 1
		}
		for k := 0; k < n; k++ {
			t := s.threads[(startAt+k)%n]
			if t == last || t.done {
				continue
			}
			tt := s.transitionsOf(t, true)
			if len(tt) == 0 {
				continue
			}
			for i, tr := range tt {
				trs = append(trs, tr)
				c := tr.extra
				if cfg.AltCost && i > 0 && !(tr.kind == trGeneric && tr.t.pend.FreeAlts) {
					c++
				}
				if cfg.Delay {
					c += group // delay bounding: every thread skipped costs one
				} else if lastEnabled {
					c++ // preemption bounding: leaving a runnable thread costs one
				}
				costs = append(costs, c)
			}
			group++
		}
		// a timer firing is free only when nothing else can happen (time passes at quiescence)
		nonTimer := len(trs)
		for _, tr := range s.timerTransitions() {
			trs = append(trs, tr)
			if nonTimer > 0 {
				costs = append(costs, 1)
			} else {
				costs = append(costs, 0)
			}
		}
		if len(trs) == 0 {
			if len(s.atRest) > 0 {
				f := s.atRest[0]
				s.atRest = s.atRest[1:]
				s.cur = nil
				if t := GoNamed("at-rest", f); t != nil {
					// it comes after everything that has happened (nothing is concurrent with it)
					t.hid = mix(0xa7e57, uint64(len(s.threads)))
					t.hist = t.hid
					for _, o := range s.threads {
						if o != t {
							t.vc.join(o.vc)
						}
					}
				}
				continue
			}
			break // quiescent
		}
		choice := 0
		var info stepInfo
		if useSleep && step >= len(prefix) {
			info.alts = make([]sleeper, len(trs))
			for i, tr := range trs {
				info.alts[i] = sleeper{s.trID(tr), s.footprintOf(tr)}
			}
			info.sleep = sleep
			for i := range trs {
				asleep := false
				for _, z := range sleep {
					if z.id == info.alts[i].id {
						asleep = true
						break
					}
				}
				if !asleep {
					info.allowed = append(info.allowed, i)
				}
			}
		}
		if step < len(prefix) {
			choice = prefix[step]
			if choice >= len(trs) {
				panic(fmt.Sprintf("vsched: replay divergence at step %d: choice %d of %d enabled transitions", step, choice, len(trs)))
			}
		} else if visited != nil {
			lid := uint64(0xfff)
			if last != nil && cfg.Bound >= 0 {
				lid = uint64(last.ID)
			}
			k := mix(s.stateKey(), uint64(len(trs)), lid)
			rem := 1 << 30
			if cfg.Bound >= 0 {
				rem = cfg.Bound - spent
			}
			e, seen := visited[k]
			if !useSleep {
				if seen && e.rem >= rem {
					pruned = true
					break
				}
				visited[k] = cacheEntry{rem: rem}
			} else {
				cur := make([]uint64, len(sleep))
				for i, z := range sleep {
					cur[i] = z.id
				}
				if seen {
					// explored before with sleep set e.sleep: everything outside e.sleep is covered.
					// Still to do: what was asleep then and is not asleep now.
					var todo []int
					var inter []uint64
					for _, id := range e.sleep {
						if hasID(cur, id) {
							inter = append(inter, id)
						}
					}
					for _, i := range info.allowed {
						if hasID(e.sleep, info.alts[i].id) {
							todo = append(todo, i)
						}
					}
					e.sleep = inter
					visited[k] = e
					info.allowed = todo
				} else {
					visited[k] = cacheEntry{rem: rem, sleep: cur}
				}
				if len(info.allowed) == 0 {
					pruned = true
					break
				}
			}
		}
		if useSleep && step >= len(prefix) {
			if len(info.allowed) == 0 {
				pruned = true // sleep-set blocked: every enabled transition is covered elsewhere
				break
			}
			choice = info.allowed[0]
			for len(steps) < step {
				steps = append(steps, stepInfo{})
			}
			steps = append(steps, info)
			// transitions that commute with the chosen one stay asleep
			var next []sleeper
			for _, z := range sleep {
				if independent(z.fp, info.alts[choice].fp) {
					next = append(next, z)
				}
			}
			sleep = next
		}
		spent += costs[choice]
		s.trace = append(s.trace, choice)
		s.nalts = append(s.nalts, len(trs))
		s.costs = append(s.costs, costs)
		if wantDescr {
			s.descr = append(s.descr, s.describeTransition(trs[choice]))
		}
		ran := s.execute(trs[choice])
		for _, t := range ran {
			s.runUntilPost(t)
		}
		if trs[choice].kind != trTimer {
			last = trs[choice].t
		}
	}
	res := &execResult{steps: steps, trace: s.trace, nalts: s.nalts, costs: s.costs, descr: s.descr, pruned: pruned, fail: s.fail, threads: len(s.threads)}
	if !pruned && res.fail == "" {
		for _, f := range s.onEnd {
			if m := f(); m != "" {
				res.fail = m
				break
			}
		}
		if res.fail == "" && s.fail != "" {
			res.fail = s.fail
		}
	}
	res.outcome = strings.Join(s.outcome, ";")
	// tear down: wake every leftover thread so that it exits
	s.aborted = true
	for _, t := range s.threads {
		if !t.done {
			s.cur = t
			t.wake <- struct{}{}
			<-s.yield
		}
	}
	s.cur = nil
	S = nil
	return res
}

// maxStates caps the state cache of one process (about 50 bytes per entry); reaching it ends
// the exploration as incomplete rather than exhausting memory.
const maxStates = 12_000_000

// Explore enumerates every execution of body within cfg.Bound deviations.
func Explore(cfg Config, body func(*Ctx)) *Result {
	start := time.Now()
	old := debug.SetGCPercent(-1)
	defer debug.SetGCPercent(old)
	var visited map[uint64]cacheEntry
	if !cfg.NoCache {
		visited = map[uint64]cacheEntry{}
	}
	// sleep sets are combined with the state cache only in unbounded searches (with a
	// deviation bound the representative interleaving kept by a sleep set may exceed the
	// budget while an equivalent cheaper one was put to sleep)
	useSleep := cfg.Sleep && cfg.Bound < 0 && visited != nil
	if cfg.MaxFailures == 0 {
		cfg.MaxFailures = 1
	}
	res := &Result{Name: cfg.Name, Bound: cfg.Bound, Outcomes: map[string]int{}, Complete: true}
	stop := false
	subtree := 0
	var rec func(prefix []int, spent int, depth int, sleep []sleeper)
	rec = func(prefix []int, spent int, depth int, sleep []sleeper) {
		if stop {
			return
		}
		if (!cfg.Deadline.IsZero() && time.Now().After(cfg.Deadline)) || (cfg.MaxExecs > 0 && res.Execs >= cfg.MaxExecs) || len(visited) > maxStates {
			res.Complete = false
			stop = true
			return
		}
		r := runOne(&cfg, prefix, visited, body, false, useSleep, sleep)
		res.Execs++
		if len(prefix) == 0 {
			res.Transitions += len(r.trace)
		} else {
			res.Transitions += len(r.trace) - len(prefix) + 1
		}
		if len(r.trace) > res.MaxDepth {
			res.MaxDepth = len(r.trace)
		}
		if r.threads > res.MaxThreads {
			res.MaxThreads = r.threads
		}
		if res.Execs%512 == 0 {
			runtime.GC()
		}
		if r.pruned {
			res.Pruned++
		} else if r.fail == "" {
			res.Outcomes[r.outcome]++
		}
		if r.fail != "" {
			// determinism discipline: the same schedule must fail the same way twice
			r2 := runOne(&cfg, r.trace, nil, body, true, false, nil)
			r3 := runOne(&cfg, r.trace, nil, body, true, false, nil)
			if r2.fail != r.fail || r3.fail != r.fail {
				panic(fmt.Sprintf("vsched: INFRA nondeterministic failure: %q vs %q vs %q", r.fail, r2.fail, r3.fail))
			}
			dev := 0
			for i, c := range r.trace {
				dev += r.costs[i][c]
			}
			res.Failures = append(res.Failures, Failure{Msg: r.fail, Choices: r.trace, Steps: r2.descr, Deviations: dev})
			if len(res.Failures) >= cfg.MaxFailures {
				stop = true
			}
			return
		}
		if useSleep {
			for i := len(prefix); i < len(r.trace) && i < len(r.steps); i++ {
				st := r.steps[i]
				for k := 1; k < len(st.allowed); k++ {
					if cfg.NShards > 1 && depth == 1 {
						subtree++
						if subtree%cfg.NShards != cfg.Shard {
							continue
						}
					}
					alt := st.allowed[k]
					// asleep below alt: the current sleep set plus the siblings explored before it,
					// as far as they commute with alt
					var z []sleeper
					for _, u := range st.sleep {
						if independent(u.fp, st.alts[alt].fp) {
							z = append(z, u)
						}
					}
					for _, j := range st.allowed[:k] {
						if independent(st.alts[j].fp, st.alts[alt].fp) {
							z = append(z, st.alts[j])
						}
					}
					np := append(append(make([]int, 0, i+1), r.trace[:i]...), alt)
					rec(np, 0, depth+1, z)
					if stop {
						return
					}
				}
			}
			return
		}
		sp := spent
		for i := len(prefix); i < len(r.trace); i++ {
			for alt := 1; alt < r.nalts[i]; alt++ {
				c := sp + r.costs[i][alt]
				if cfg.Bound >= 0 && c > cfg.Bound {
					continue
				}
				if cfg.NShards > 1 && depth == 1 {
					subtree++
					if subtree%cfg.NShards != cfg.Shard {
						continue
					}
				}
				np := append(append(make([]int, 0, i+1), r.trace[:i]...), alt)
				rec(np, c, depth+1, nil)
				if stop {
					return
				}
			}
			sp += r.costs[i][r.trace[i]]
		}
	}
	rec(nil, 0, 0, nil)
	res.States = len(visited)
	if visited == nil {
		res.States = res.Transitions
	}
	// one fully described default execution as a sample
	if len(res.Failures) == 0 {
		r := runOne(&cfg, nil, nil, body, true, false, nil)
		res.SampleTrace = r.descr
	}
	res.WallS = time.Since(start).Seconds()
	return res
}

// Replay runs exactly one execution following choices and reports its failure (if any)
// together with the described steps.
func Replay(cfg Config, body func(*Ctx), choices []int) (fail string, steps []string) {
	r := runOne(&cfg, choices, nil, body, true, false, nil)
	return r.fail, r.descr
}
