#include "textflag.h"

// func getg() uintptr
TEXT ·getg(SB),NOSPLIT,$0-8
	MOVQ (TLS), R14
	MOVQ R14, ret+0(FP)
	RET
