package vsched

// Partial-order reduction by sleep sets (Godefroid). Two transitions are independent when
// they belong to different threads and their footprints do not conflict; independent
// transitions commute and neither enables nor disables the other. The footprints mirror
// exactly what the history hashing in execute() absorbs and updates, so "independent" here
// implies "commute in the state key" as well.

const (
	accR = iota // observes the part
	accW        // changes the part
	accA        // adds itself to a waiter set (two additions commute)
)

type pacc struct {
	part uint64
	mode uint8
}

type footprint struct {
	t, p   int // thread and rendezvous partner (-1: none)
	acc    []pacc
	global bool // dependent with everything (close, cancel, timer, wake-ups)
}

const (
	partB  = 0 // buffer / closed state, or the whole of a generic object
	partRQ = 1 // parked receivers
	partSQ = 2 // parked senders
)

func part(o *Obj, which uint64) uint64 { return mix(o.ID, which, 0x9a7) }

func (s *Sched) trID(tr transition) uint64 {
	if tr.kind == trTimer {
		return mix(0x71, tr.timer.obj.ID)
	}
	ph := uint64(0)
	if tr.partner != nil {
		ph = tr.partner.hid
	}
	return mix(tr.t.hid, uint64(tr.kind), uint64(tr.ci+3), uint64(tr.alt), ph, uint64(tr.pci))
}

// queuesOf lists the waiter-set parts a parked thread sits in (it leaves all of them when it is woken).
func queuesOf(p *Thread, mode uint8, out []pacc) []pacc {
	if p.pend == nil {
		return out
	}
	for _, c := range p.pend.cases {
		if c.core == nil {
			continue
		}
		if c.send {
			out = append(out, pacc{part(c.core.obj, partSQ), mode})
		} else {
			out = append(out, pacc{part(c.core.obj, partRQ), mode})
		}
	}
	return out
}

func (s *Sched) footprintOf(tr transition) footprint {
	if tr.kind == trTimer {
		return footprint{t: -1, p: -1, global: true}
	}
	t := tr.t
	f := footprint{t: t.ID, p: -1}
	o := t.pend
	switch tr.kind {
	case trGeneric:
		if o.Global {
			f.global = true
			return f
		}
		if o.Obj != nil {
			m := uint8(accW)
			if o.ReadOnly {
				m = accR
			}
			f.acc = append(f.acc, pacc{part(o.Obj, partB), m})
		}
		return f
	case trDefault, trPark:
		for _, c := range o.cases {
			k := c.core
			if k == nil {
				continue
			}
			f.acc = append(f.acc, pacc{part(k.obj, partB), accR})
			if c.send {
				f.acc = append(f.acc, pacc{part(k.obj, partRQ), accR})
				if tr.kind == trPark {
					f.acc = append(f.acc, pacc{part(k.obj, partSQ), accA})
				}
			} else {
				f.acc = append(f.acc, pacc{part(k.obj, partSQ), accR})
				if tr.kind == trPark {
					f.acc = append(f.acc, pacc{part(k.obj, partRQ), accA})
				}
			}
		}
		return f
	}
	// trCase
	c := o.cases[tr.ci]
	k := c.core
	if tr.partner != nil {
		f.p = tr.partner.ID
		f.acc = append(f.acc, pacc{part(k.obj, partB), accR})
		f.acc = queuesOf(tr.partner, accW, f.acc)
		return f
	}
	if c.send {
		if k.closed {
			f.acc = append(f.acc, pacc{part(k.obj, partB), accR})
			return f
		}
		f.acc = append(f.acc, pacc{part(k.obj, partB), accW}, pacc{part(k.obj, partRQ), accR})
		return f
	}
	if len(k.buf) > 0 {
		f.acc = append(f.acc, pacc{part(k.obj, partB), accW}, pacc{part(k.obj, partSQ), accR})
		// a parked sender may be moved into the buffer: that wakes another thread
		for _, p := range s.threads {
			if p.done || !p.parked || p.pend == nil {
				continue
			}
			for _, pc := range p.pend.cases {
				if pc.core == k && pc.send {
					f.global = true
				}
			}
		}
		return f
	}
	f.acc = append(f.acc, pacc{part(k.obj, partB), accR})
	return f
}

func independent(a, b footprint) bool {
	if a.global || b.global {
		return false
	}
	if a.t == b.t || (a.p >= 0 && (a.p == b.t || a.p == b.p)) || (b.p >= 0 && b.p == a.t) {
		return false
	}
	for _, x := range a.acc {
		for _, y := range b.acc {
			if x.part == y.part && !(x.mode == accR && y.mode == accR) && !(x.mode == accA && y.mode == accA) {
				return false
			}
		}
	}
	return true
}
