package vsched

import (
	"fmt"
	"strings"
	"unsafe"
)

// Field-level happens-before race detection. The instrumenter wraps plain reads and
// writes of struct fields / package variables of the packages under test in R / W.
// Because the scheduler runs the code between two visible operations atomically, a
// conflicting pair of accesses that is unordered by happens-before is a data race
// of the real program (the accesses could be adjacent in a real execution).

type epochRW struct {
	tid    int
	clk    uint32
	atomic bool
	tag    string
}

// Tag labels what the current thread is doing (e.g. "Status()") until Untag; data race
// reports name the labels of both accesses, so that a check can tell whose race it is.
func Tag(label string) {
	if S != nil && S.cur != nil {
		S.cur.tag = label
	}
}

func Untag() { Tag("") }

// RacePrefix starts every data race message; the location's name follows, up to the colon.
const RacePrefix = "data race on "

type shadowLoc struct {
	name  string
	w     epochRW
	hasW  bool
	reads []epochRW
}

// AtomicAccess records an access made through sync/atomic functions on a plain
// variable: it races with plain accesses but not with other atomic ones.
func AtomicAccess(p unsafe.Pointer, write bool) {
	if S != nil {
		access(p, "", write, true)
	}
}

func access(p unsafe.Pointer, name string, write bool, atomic bool) {
	s := S
	if s == nil || s.cur == nil || s.cur.aborting || s.aborted {
		return
	}
	t := s.cur
	if onOwnStack(p) {
		return // private to this goroutine, and the address will be somebody else's later
	}
	if s.shadow == nil {
		s.shadow = make(map[uintptr]*shadowLoc)
	}
	key := uintptr(p)
	if !atomic && s.promote[name] {
		// a location found racy earlier: its plain accesses are visible operations now, so
		// that the interleavings of the racing statements are explored like any others
		if s.plain == nil {
			s.plain = make(map[uintptr]*Obj)
		}
		o := s.plain[key]
		if o == nil {
			o = NewObj("plain:" + name)
			s.plain[key] = o
		}
		kind := "plain-read "
		if write {
			kind = "plain-write "
		}
		Post(&Op{Name: kind + name, Obj: o, ReadOnly: !write})
		if s.cur != t || t.aborting || s.aborted {
			return
		}
	}
	loc := s.shadow[key]
	if loc == nil {
		loc = &shadowLoc{name: name}
		s.shadow[key] = loc
	}
	if loc.name == "" {
		loc.name = name
	}
	if name == "" {
		name = loc.name + "(atomic access)"
	}
	me := epochRW{t.ID, t.vc.at(t.ID), atomic, t.tag}
	// A thread that had ended before this one was created cannot have run concurrently with it
	// in this execution, and its stack is free for reuse: an address of its stack may now
	// belong to another object. Such a pair is not judged here - if the two accesses can
	// overlap, they do in the execution where the creation comes first, and are judged there.
	gone := func(tid int) bool { o := s.threads[tid]; return o.done && o.endedAt < t.bornAt }
	if loc.hasW && loc.w.tid != t.ID && loc.w.clk > t.vc.at(loc.w.tid) && !(atomic && loc.w.atomic) && !gone(loc.w.tid) {
		kind := "read"
		if write {
			kind = "write"
		}
		s.reportRace(name, s.threads[loc.w.tid], "write", loc.w.tag, t, kind)
	}
	if write {
		for _, r := range loc.reads {
			if r.tid != t.ID && r.clk > t.vc.at(r.tid) && !(atomic && r.atomic) && !gone(r.tid) {
				s.reportRace(name, s.threads[r.tid], "read", r.tag, t, "write")
			}
		}
		loc.w, loc.hasW = me, true
		loc.reads = loc.reads[:0]
		return
	}
	for i, r := range loc.reads {
		if r.tid == t.ID {
			loc.reads[i] = me
			return
		}
	}
	loc.reads = append(loc.reads, me)
}

func inTag(tag string) string {
	if tag == "" {
		return ""
	}
	return " [in " + tag + "]"
}

func (s *Sched) reportRace(name string, a *Thread, ak string, atag string, b *Thread, bk string) {
	if s.raceKey == nil {
		s.raceKey = make(map[string]bool)
	}
	msg := fmt.Sprintf(RacePrefix+"%s: %s by thread %s%s is not ordered (happens-before) with earlier %s by thread %s%s", name, bk, b.Name, inTag(b.tag), ak, a.Name, inTag(atag))
	k := name + "|" + ak + "|" + bk + "|" + atag + "|" + b.tag
	if !s.raceKey[k] {
		s.raceKey[k] = true
		s.races = append(s.races, msg)
		s.raceLocs = append(s.raceLocs, strings.TrimSuffix(name, "(atomic access)"))
	}
}

// R records a plain read of *p and returns p.
func R[T any](p *T, name string) *T {
	if S != nil {
		if unsafe.Sizeof(*p) == 0 {
			return p
		}
		access(unsafe.Pointer(p), name, false, false)
	}
	return p
}

// W records a plain write of *p and returns p.
func W[T any](p *T, name string) *T {
	if S != nil {
		if unsafe.Sizeof(*p) == 0 {
			return p
		}
		access(unsafe.Pointer(p), name, true, false)
	}
	return p
}
