// Package vsched is the controlled cooperative scheduler, stateless explorer and
// happens-before race detector under which the instrumented glb packages run.
//
// Real goroutines are used as threads, but exactly one runs at a time. Every
// visible operation (lock, atomic, channel, pool, wait-group, context, timer)
// is posted to the scheduler, which decides which posted operation executes
// next. Code between two visible operations runs atomically.
//
// When no scheduler is active (Active()==false) the shim packages fall back to
// the real primitives, so instrumented packages also work in plain sequential
// harnesses.
package vsched

import (
	"fmt"
	"runtime"
	"sort"
	"strings"
)

// ---------------------------------------------------------------- vector clocks

type VC []uint32

func (v *VC) join(o VC) {
	for len(*v) < len(o) {
		*v = append(*v, 0)
	}
	for i, x := range o {
		if x > (*v)[i] {
			(*v)[i] = x
		}
	}
}

func (v VC) clone() VC { return append(VC(nil), v...) }

func (v VC) at(i int) uint32 {
	if i < len(v) {
		return v[i]
	}
	return 0
}

// ---------------------------------------------------------------- objects

// Obj is the scheduler-side identity of a shim primitive.
type Obj struct {
	ID   uint64
	Kind string
	hist uint64
	VC   VC // release clock (writers / generic)
	VC2  VC // second release clock (RWMutex readers)
}

func mix(h uint64, vs ...uint64) uint64 {
	for _, v := range vs {
		h ^= v + 0x9e3779b97f4a7c15 + (h << 6) + (h >> 2)
		h *= 0xff51afd7ed558ccd
		h ^= h >> 33
	}
	return h
}

func strHash(s string) uint64 {
	h := uint64(14695981039346656037)
	for i := 0; i < len(s); i++ {
		h ^= uint64(s[i])
		h *= 1099511628211
	}
	return h
}

// NewObj allocates a scheduler object. Its identity is derived from the creating
// thread and that thread's progress, so that equivalent interleavings give equal ids.
func NewObj(kind string) *Obj {
	s := S
	o := &Obj{Kind: kind}
	if s == nil {
		return o
	}
	t := s.cur
	if t != nil {
		t.nobj++
		o.ID = mix(t.hid, uint64(t.steps), uint64(t.nobj), strHash(kind))
	} else {
		s.nenvobj++
		o.ID = mix(7, uint64(s.nenvobj), strHash(kind))
	}
	o.hist = o.ID
	return o
}

// ---------------------------------------------------------------- threads

type Thread struct {
	ID   int
	Name string
	hid  uint64

	wake     chan struct{}
	pend     *Op
	parked   bool
	fresh    bool
	parkTok  uint64
	done     bool
	started  bool
	aborting bool
	panicked bool
	panicVal any
	stack    string
	tag      string
	bornAt   int // value of the scheduler's life-cycle counter when the thread was created / ended
	endedAt  int

	hist   uint64
	steps  int
	nspawn int
	nobj   int
	vc     VC

	// Marks are harness-visible markers (e.g. "inside Write").
	Marks map[string]int
}

func (t *Thread) Done() bool { return t.done }

// Blocked reports whether the thread is alive and has no enabled transition.
func (t *Thread) Blocked() bool {
	if t.done || S == nil {
		return false
	}
	return len(S.transitionsOf(t, false)) == 0
}

// PendingOp describes what the thread is waiting to do.
func (t *Thread) PendingOp() string {
	if t.done {
		return "done"
	}
	if t.pend == nil {
		return "running"
	}
	return t.pend.describe()
}

func (t *Thread) Panicked() (any, bool) { return t.panicVal, t.panicked }

// ---------------------------------------------------------------- operations

// Op is one visible operation posted by a thread.
type Op struct {
	Name     string
	Obj      *Obj
	ReadOnly bool
	Enabled  func() bool              // nil: always enabled
	NAlts    func() int               // nil: 1; alternatives beyond 0 cost one deviation each
	Exec     func(t *Thread, alt int) // runs in the scheduler goroutine
	Code     uint64                   // extra value mixed into the history (e.g. operation result)
	FreeAlts bool                     // alternatives are environment/input choices, not deviations
	Global   bool                     // may wake other threads (close, cancel): dependent with every other transition

	isSel      bool
	cases      []Case
	hasDefault bool
	res        Sel
}

func (o *Op) describe() string {
	if !o.isSel {
		return o.Name
	}
	var b strings.Builder
	b.WriteString("select{")
	for i, c := range o.cases {
		if i > 0 {
			b.WriteString(",")
		}
		if c.core == nil {
			b.WriteString("nil")
			continue
		}
		if c.send {
			fmt.Fprintf(&b, "send:%s", c.core.name)
		} else {
			fmt.Fprintf(&b, "recv:%s", c.core.name)
		}
	}
	if o.hasDefault {
		b.WriteString(",default")
	}
	b.WriteString("}")
	return b.String()
}

type trKind int

const (
	trGeneric trKind = iota
	trCase
	trDefault
	trPark
	trTimer
)

type transition struct {
	kind    trKind
	t       *Thread
	ci      int
	alt     int
	partner *Thread
	pci     int
	extra   int // deviation cost beyond the preemption cost
	timer   *chanCore
}

// ---------------------------------------------------------------- scheduler

// S is the active scheduler, nil when code runs free.
var S *Sched

func Active() bool { return S != nil && S.cur != nil && !S.cur.aborting && !S.aborted }

// InSched reports whether a scheduler exists at all (even while aborting).
func InSched() bool { return S != nil }

const (
	ModeFree  = 0 // no scheduler: shims use the real primitives
	ModeSched = 1 // running as a scheduled thread: operations are posted
	ModeAbort = 2 // execution being torn down (or oracle context): operations are no-ops
)

// Mode tells a shim how to perform an operation right now.
func Mode() int {
	s := S
	if s == nil {
		return ModeFree
	}
	if s.cur == nil || s.cur.aborting || s.aborted {
		return ModeAbort
	}
	return ModeSched
}

var epochCounter uint64

// Epoch identifies the current execution; shim objects that outlive an execution
// (package-level pools) reset themselves when it changes. 0 means "no scheduler".
func Epoch() uint64 {
	if S == nil {
		return 0
	}
	return S.epoch
}

type Sched struct {
	epoch   uint64
	threads []*Thread
	cur     *Thread
	yield   chan *Thread
	aborted bool
	nenvobj int

	timers     []*chanCore
	timersLive bool

	trace    []int
	nalts    []int
	costs    [][]int
	descr    []string
	fail     string
	races    []string
	raceLocs []string
	promote  map[string]bool
	plain    map[uintptr]*Obj
	raceKey  map[string]bool
	shadow   map[uintptr]*shadowLoc

	onStep  []func() string
	onEnd   []func() string
	atRest  []func()
	life    int // counts thread creations and terminations
	outcome []string

	monitor *Obj
	events  []string

	extraRun []*Thread // threads woken by a generic operation (close, cancel)
}

type abortSignal struct{}

// Cur returns the running thread (nil outside the scheduler).
func Cur() *Thread {
	if S == nil {
		return nil
	}
	return S.cur
}

// Go starts f as a scheduled thread (or as a plain goroutine when inactive).
func Go(f func()) *Thread { return GoNamed("", f) }

func GoNamed(name string, f func()) *Thread {
	s := S
	if s == nil {
		go f()
		return nil
	}
	if s.aborted || (s.cur != nil && s.cur.aborting) {
		return nil
	}
	parent := s.cur
	t := &Thread{ID: len(s.threads), Name: name, wake: make(chan struct{})}
	if parent != nil {
		parent.nspawn++
		t.hid = mix(parent.hid, uint64(parent.nspawn), 0x51)
		t.vc = parent.vc.clone()
		parent.tick()
	} else {
		t.hid = 1
	}
	for len(t.vc) <= t.ID {
		t.vc = append(t.vc, 0)
	}
	t.vc[t.ID] = 1
	t.hist = t.hid
	if t.Name == "" {
		t.Name = fmt.Sprintf("T%d", t.ID)
	}
	// A new thread runs up to its first visible operation as soon as the scheduler
	// regains control: that prefix contains no visible operation, so (for race-free
	// code, which the detector checks) it commutes with everything and needs no
	// scheduling point of its own.
	t.fresh = true
	s.life++
	t.bornAt = s.life
	s.threads = append(s.threads, t)
	go func() {
		<-t.wake
		defer func() {
			if !t.aborting {
				if r := recover(); r != nil {
					t.panicked = true
					t.panicVal = r
					buf := make([]byte, 4096)
					t.stack = string(buf[:runtime.Stack(buf, false)])
				}
			}
			t.done = true
			s.life++
			t.endedAt = s.life
			t.pend = nil
			s.yield <- t
		}()
		if s.aborted {
			t.aborting = true
			return
		}
		t.started = true
		f()
	}()
	return t
}

func (t *Thread) tick() {
	for len(t.vc) <= t.ID {
		t.vc = append(t.vc, 0)
	}
	t.vc[t.ID]++
}

func (t *Thread) acquire(v VC) { t.vc.join(v) }
func (t *Thread) release(v *VC) {
	v.join(t.vc)
	t.tick()
}

// Acquire / Release are exported for shim packages' Exec functions.
func (t *Thread) Acquire(v VC)  { t.acquire(v) }
func (t *Thread) Release(v *VC) { t.release(v) }

// Post hands op to the scheduler and blocks until it has been executed.
// Outside an active scheduler (or while an execution is being torn down) it
// returns false without doing anything.
func Post(o *Op) bool {
	s := S
	if s == nil || s.cur == nil {
		return false
	}
	t := s.cur
	if t.aborting || s.aborted {
		return false
	}
	t.pend = o
	s.yield <- t
	<-t.wake
	if s.aborted {
		t.aborting = true
		runtime.Goexit()
	}
	return true
}

// Choose is a free nondeterministic choice among n alternatives (inputs, environment
// answers); the explorer enumerates all of them at no deviation cost.
func Choose(n int, what string) int {
	r := 0
	Post(&Op{Name: "choose:" + what, FreeAlts: true, NAlts: func() int { return n }, Exec: func(_ *Thread, alt int) { r = alt }})
	return r
}

// Mark sets a harness-visible marker on the running thread.
func Mark(k string, v int) {
	if t := Cur(); t != nil {
		if t.Marks == nil {
			t.Marks = map[string]int{}
		}
		t.Marks[k] = v
	}
}

// Yield is a pure scheduling point.
func Yield(name string) {
	Post(&Op{Name: "yield:" + name, ReadOnly: true})
}

// ---------------------------------------------------------------- enabledness

func (s *Sched) transitionsOf(t *Thread, withPark bool) []transition {
	o := t.pend
	if o == nil || t.done {
		return nil
	}
	if !o.isSel {
		if o.Enabled != nil && !o.Enabled() {
			return nil
		}
		n := 1
		if o.NAlts != nil {
			n = o.NAlts()
		}
		out := make([]transition, 0, n)
		for a := 0; a < n; a++ {
			x := 0
			if a > 0 && !o.FreeAlts {
				x = 1
			}
			out = append(out, transition{kind: trGeneric, t: t, alt: a, extra: x})
		}
		return out
	}
	if t.parked {
		return nil // completed by a partner, a close or a timer
	}
	var out []transition
	for i, c := range o.cases {
		k := c.core
		if k == nil {
			continue
		}
		if c.send {
			if k.closed {
				out = append(out, transition{kind: trCase, t: t, ci: i}) // will panic in the thread
				continue
			}
			if ps := s.parkedOn(t, k, false); len(ps) > 0 {
				for _, p := range ps {
					p.t, p.ci, p.kind = t, i, trCase
					out = append(out, p)
				}
			} else if len(k.buf) < k.cap {
				out = append(out, transition{kind: trCase, t: t, ci: i})
			}
		} else {
			if len(k.buf) > 0 {
				out = append(out, transition{kind: trCase, t: t, ci: i})
			} else if k.closed {
				out = append(out, transition{kind: trCase, t: t, ci: i})
			} else if ps := s.parkedOn(t, k, true); len(ps) > 0 {
				for _, p := range ps {
					p.t, p.ci, p.kind = t, i, trCase
					out = append(out, p)
				}
			}
		}
	}
	if len(out) == 0 {
		if o.hasDefault {
			out = append(out, transition{kind: trDefault, t: t, ci: -1})
		} else if withPark {
			out = append(out, transition{kind: trPark, t: t, ci: -2})
		}
	}
	return out
}

// parkedOn lists parked threads (other than self) waiting on k in the given direction.
// Only the longest-parked one is offered for buffered hand-off; for rendezvous all are
// offered (Go wakes waiters FIFO; exploring every partner is a superset that the
// runtime may also produce under different arrival orders).
func (s *Sched) parkedOn(self *Thread, k *chanCore, wantSend bool) []transition {
	var out []transition
	for _, p := range s.threads {
		if p == self || p.done || !p.parked || p.pend == nil || !p.pend.isSel {
			continue
		}
		for j, c := range p.pend.cases {
			if c.core == k && c.send == wantSend {
				out = append(out, transition{partner: p, pci: j})
				break
			}
		}
	}
	return out
}

func (s *Sched) timerTransitions() []transition {
	if !s.timersLive {
		return nil
	}
	var out []transition
	for _, k := range s.timers {
		if k.fired || k.stopped {
			continue
		}
		waiting := false
		for _, t := range s.threads {
			if t.done || t.pend == nil || !t.pend.isSel {
				continue
			}
			for _, c := range t.pend.cases {
				if c.core == k && !c.send {
					waiting = true
				}
			}
		}
		if waiting {
			out = append(out, transition{kind: trTimer, timer: k})
		}
	}
	return out
}

// ---------------------------------------------------------------- execution of transitions

// absorb records that t performed an operation (identified by code) on o.
// The caller increments t.steps once per transition beforehand.
func (s *Sched) complete(t *Thread, o *Obj, code uint64, readonly bool) {
	if o != nil {
		t.hist = mix(t.hist, o.ID, code, o.hist)
		if !readonly {
			o.hist = mix(o.hist, t.hid, uint64(t.steps), code)
		}
	} else {
		t.hist = mix(t.hist, 0, code)
	}
}

// History bookkeeping for channels. A channel has three independently hashed parts:
// its buffer/closed state (obj.hist), the set of parked receivers (hRQ) and the set
// of parked senders (hSQ). The waiter sets are hashed commutatively (sum of tokens),
// so that threads parking on selects that merely share a channel nobody sends on
// (ctx.Done()) stay independent. A thread absorbs exactly the parts its transition
// observed; that keeps equal keys <=> equal happens-before traces.

func (t *Thread) absorb(vs ...uint64) { t.hist = mix(t.hist, vs...) }

func (s *Sched) unpark(p *Thread) {
	if !p.parked {
		return
	}
	for _, c := range p.pend.cases {
		if c.core == nil {
			continue
		}
		if c.send {
			c.core.hSQ -= p.parkTok
		} else {
			c.core.hRQ -= p.parkTok
		}
	}
	p.parked = false
}

func (s *Sched) finishSel(t *Thread, ci int, v any, ok bool) {
	s.unpark(t)
	t.pend.res = Sel{I: ci, V: v, Ok: ok}
}

func (s *Sched) execute(tr transition) []*Thread {
	switch tr.kind {
	case trTimer:
		k := tr.timer
		k.fired = true
		k.obj.hist = mix(k.obj.hist, 0x71e)
		// hand the tick to a parked receiver if there is one
		for _, p := range s.threads {
			if p.done || !p.parked || p.pend == nil {
				continue
			}
			for j, c := range p.pend.cases {
				if c.core == k && !c.send {
					p.steps++
					p.absorb(k.obj.ID, uint64(j)+0x100, k.obj.hist)
					s.finishSel(p, j, k.timerVal, true)
					return []*Thread{p}
				}
			}
		}
		k.buf = append(k.buf, slot{v: k.timerVal})
		return nil
	}
	t := tr.t
	o := t.pend
	t.steps++
	switch tr.kind {
	case trGeneric:
		s.extraRun = s.extraRun[:0]
		if o.Exec != nil {
			o.Exec(t, tr.alt)
		}
		s.complete(t, o.Obj, strHash(o.Name)^uint64(tr.alt)<<32^o.Code, o.ReadOnly)
		return append([]*Thread{t}, s.extraRun...)
	case trDefault:
		// a failed try-operation observed buffer state and the opposite waiter set
		for _, c := range o.cases {
			if k := c.core; k != nil {
				if c.send {
					t.absorb(k.obj.ID, 0xd5, k.obj.hist, k.hRQ)
				} else {
					t.absorb(k.obj.ID, 0xd6, k.obj.hist, k.hSQ)
				}
			}
		}
		s.finishSel(t, -1, nil, false)
		return []*Thread{t}
	case trPark:
		t.parkTok = mix(t.hid, t.hist, 0x9a4) | 1
		for _, c := range o.cases {
			if k := c.core; k != nil {
				if c.send {
					t.absorb(k.obj.ID, 0xb1, k.obj.hist, k.hRQ)
					k.hSQ += t.parkTok
				} else {
					t.absorb(k.obj.ID, 0xb2, k.obj.hist, k.hSQ)
					k.hRQ += t.parkTok
				}
			}
		}
		t.parked = true
		return nil
	}
	// trCase
	c := o.cases[tr.ci]
	k := c.core
	if tr.partner != nil {
		p := tr.partner
		pc := p.pend.cases[tr.pci]
		var v any
		if c.send {
			v = c.val
		} else {
			v = pc.val
		}
		// rendezvous / direct hand-off: synchronises both ways, leaves the buffer alone
		var j VC
		j.join(t.vc)
		j.join(p.vc)
		t.vc.join(j)
		p.vc.join(j)
		t.tick()
		p.tick()
		p.steps++
		th, ph := t.hist, p.hist
		t.absorb(k.obj.ID, uint64(tr.ci)+0x200, k.obj.hist, ph)
		p.absorb(k.obj.ID, uint64(tr.pci)+0x300, k.obj.hist, th)
		s.finishSel(t, tr.ci, v, true)
		s.finishSel(p, tr.pci, v, true)
		return []*Thread{t, p}
	}
	if c.send {
		if k.closed {
			t.absorb(k.obj.ID, 0x400, k.obj.hist)
			s.unpark(t)
			t.pend.res = Sel{I: tr.ci, panicMsg: "send on closed channel"}
			return []*Thread{t}
		}
		k.sendCompletes(t)
		k.buf = append(k.buf, slot{v: c.val, vc: t.vc.clone()})
		t.tick()
		t.absorb(k.obj.ID, uint64(tr.ci)+0x500, k.obj.hist, k.hRQ)
		k.obj.hist = mix(k.obj.hist, t.hid, uint64(t.steps), 0x5e)
		s.finishSel(t, tr.ci, nil, true)
		return []*Thread{t}
	}
	if len(k.buf) > 0 {
		sl := k.buf[0]
		k.buf = k.buf[1:]
		t.acquire(sl.vc)
		if k.cap > 0 {
			k.nrecv++
			if k.recvVC == nil {
				k.recvVC = map[int]VC{}
			}
			k.recvVC[k.nrecv] = t.vc.clone()
			t.tick()
		}
		ran := []*Thread{t}
		t.absorb(k.obj.ID, uint64(tr.ci)+0x600, k.obj.hist, k.hSQ)
		k.obj.hist = mix(k.obj.hist, t.hid, uint64(t.steps), 0x4e)
		s.finishSel(t, tr.ci, sl.v, true)
		// a parked sender on a full buffered channel moves its value in
		for _, p := range s.threads {
			if p.done || !p.parked || p.pend == nil || len(k.buf) >= k.cap {
				continue
			}
			for j, pc := range p.pend.cases {
				if pc.core == k && pc.send {
					k.sendCompletes(p) // the parked send is the one that pairs with this very receive
					k.buf = append(k.buf, slot{v: pc.val, vc: p.vc.clone()})
					p.acquire(t.vc)
					p.tick()
					p.steps++
					p.absorb(k.obj.ID, uint64(j)+0x700, k.obj.hist, t.hist)
					k.obj.hist = mix(k.obj.hist, p.hid, uint64(p.steps), 0x5f)
					s.finishSel(p, j, nil, true)
					ran = append(ran, p)
					break
				}
			}
			if len(ran) > 1 {
				break
			}
		}
		return ran
	}
	// closed and drained
	t.acquire(k.obj.VC)
	t.absorb(k.obj.ID, uint64(tr.ci)+0x800, k.obj.hist)
	s.finishSel(t, tr.ci, nil, false)
	return []*Thread{t}
}

// sendCompletes: the k-th receive on a channel of capacity C is synchronised before the
// completion of the (k+C)-th send (Go memory model) - what makes a buffered channel a semaphore.
func (k *chanCore) sendCompletes(t *Thread) {
	k.nsent++
	if i := k.nsent - k.cap; i >= 1 {
		if vc, ok := k.recvVC[i]; ok {
			t.acquire(vc)
			delete(k.recvVC, i)
		}
	}
}

func (s *Sched) runUntilPost(t *Thread) {
	s.cur = t
	t.wake <- struct{}{}
	<-s.yield
	s.cur = nil
}

// stateKey identifies the Mazurkiewicz trace executed so far: every thread's
// history hash absorbs the history of each object it touched.
func (s *Sched) stateKey() uint64 {
	h := uint64(1469598103934665603)
	for _, t := range s.threads {
		d := uint64(0)
		if t.done {
			d = 1
		}
		if t.parked {
			d |= 2
		}
		h = mix(h, t.hid, t.hist, d)
	}
	for _, k := range s.timers {
		if k.fired {
			h = mix(h, k.obj.ID, 0xf1)
		}
	}
	return h
}

func (s *Sched) describeTransition(tr transition) string {
	switch tr.kind {
	case trTimer:
		return "env:timer-fires(" + tr.timer.name + ")"
	case trGeneric:
		if tr.alt > 0 {
			return fmt.Sprintf("%s:%s#alt%d", tr.t.Name, tr.t.pend.Name, tr.alt)
		}
		return tr.t.Name + ":" + tr.t.pend.Name
	case trDefault:
		return tr.t.Name + ":" + tr.t.pend.describe() + "->default"
	case trPark:
		return tr.t.Name + ":park " + tr.t.pend.describe()
	}
	c := tr.t.pend.cases[tr.ci]
	dir := "recv"
	if c.send {
		dir = "send"
	}
	if tr.partner != nil {
		return fmt.Sprintf("%s:%s %s <-> %s", tr.t.Name, dir, c.core.name, tr.partner.Name)
	}
	return fmt.Sprintf("%s:%s %s", tr.t.Name, dir, c.core.name)
}

// ---------------------------------------------------------------- monitor events

// Event posts a visible operation on the global monitor object, so that the
// relative order of harness observations is part of the explored trace.
func Event(name string) {
	s := S
	if s == nil {
		return
	}
	if s.monitor == nil {
		s.monitor = &Obj{ID: 0x4d4f4e, Kind: "monitor", hist: 0x4d4f4e}
	}
	Post(&Op{Name: "event:" + name, Obj: s.monitor, Code: strHash(name), Exec: func(t *Thread, _ int) {
		t.acquire(s.monitor.VC)
		t.release(&s.monitor.VC)
		s.events = append(s.events, name)
	}})
}

// Events returns the monitor events of the current execution in order.
func Events() []string {
	if S == nil {
		return nil
	}
	return S.events
}

// Threads returns the threads of the current execution.
func Threads() []*Thread {
	if S == nil {
		return nil
	}
	return S.threads
}

func sortedKeys(m map[string]int) []string {
	ks := make([]string, 0, len(m))
	for k := range m {
		ks = append(ks, k)
	}
	sort.Strings(ks)
	return ks
}
