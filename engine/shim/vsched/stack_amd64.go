//go:build amd64

package vsched

import "unsafe"

func getg() uintptr

// onOwnStack reports whether p points into the stack of the calling goroutine. The runtime's
// g structure starts with its stack bounds (lo, hi). An object on a goroutine's stack is
// private to that goroutine (anything shared escapes to the heap), and stacks move and are
// recycled, so addresses inside them must not be tracked by address.
func onOwnStack(p unsafe.Pointer) bool {
	g := getg()
	if g == 0 {
		return false
	}
	lo := *(*uintptr)(unsafe.Pointer(g))
	hi := *(*uintptr)(unsafe.Pointer(g + unsafe.Sizeof(uintptr(0))))
	a := uintptr(p)
	return lo <= a && a < hi
}
