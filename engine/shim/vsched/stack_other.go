//go:build !amd64

package vsched

import "unsafe"

func onOwnStack(p unsafe.Pointer) bool { return false }
