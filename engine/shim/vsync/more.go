package vsync

import (
	"sync"

	"verif/engine/shim/vsched"
)

// The less common parts of package sync, so that code using them still builds and is explored
// (none of them is used by glb at the pinned commit).

// ---------------------------------------------------------------- Cond

// Cond: waiters queue up in order; Signal wakes the longest waiting one, Broadcast all of
// them; no spurious wake-ups (a subset of what the real runtime may do).
type Cond struct {
	L Locker

	real    *sync.Cond
	c       cell
	waiters []*vsched.Chan[struct{}]
}

func NewCond(l Locker) *Cond { return &Cond{L: l} }

func (c *Cond) realCond() *sync.Cond {
	if c.real == nil {
		c.real = sync.NewCond(c.L)
	}
	return c.real
}

func (c *Cond) sync() {
	if c.c.fresh("cond") {
		c.waiters = nil
	}
}

func (c *Cond) Wait() {
	if vsched.Mode() != vsched.ModeSched {
		if vsched.Mode() == vsched.ModeFree {
			c.realCond().Wait()
		}
		return
	}
	c.sync()
	ch := vsched.MakeChan[struct{}](1).SetName("cond-waiter")
	vsched.Post(&vsched.Op{Name: "Cond.enqueue", Obj: c.c.obj,
		Exec: func(t *vsched.Thread, _ int) { c.waiters = append(c.waiters, ch) }})
	c.L.Unlock()
	ch.Recv()
	c.L.Lock()
}

func (c *Cond) wake(all bool, name string) {
	if vsched.Mode() != vsched.ModeSched {
		if vsched.Mode() == vsched.ModeFree {
			if all {
				c.realCond().Broadcast()
			} else {
				c.realCond().Signal()
			}
		}
		return
	}
	c.sync()
	var woken []*vsched.Chan[struct{}]
	vsched.Post(&vsched.Op{Name: name, Obj: c.c.obj,
		Exec: func(t *vsched.Thread, _ int) {
			n := len(c.waiters)
			if !all && n > 1 {
				n = 1
			}
			woken = append(woken, c.waiters[:n]...)
			c.waiters = c.waiters[n:]
		}})
	for _, ch := range woken {
		ch.Send(struct{}{}) // buffered: never blocks
	}
}

func (c *Cond) Signal()    { c.wake(false, "Cond.Signal") }
func (c *Cond) Broadcast() { c.wake(true, "Cond.Broadcast") }

// ---------------------------------------------------------------- Map

// Map: every method is one visible operation on the map as a whole (reads do not conflict
// with each other). Range works on a snapshot, as the real one may.
type Map struct {
	real sync.Map
	c    cell
	m    map[any]any
	keys []any // insertion order, so that Range is deterministic under the scheduler
}

func (m *Map) sync() {
	if m.c.fresh("syncmap") || m.m == nil {
		m.m, m.keys = map[any]any{}, nil
	}
}

func (m *Map) do(name string, readOnly bool, f func()) bool {
	if vsched.Mode() != vsched.ModeSched {
		return false
	}
	m.sync()
	vsched.Post(&vsched.Op{Name: name, Obj: m.c.obj, ReadOnly: readOnly,
		Exec: func(t *vsched.Thread, _ int) {
			t.Acquire(m.c.obj.VC)
			f()
			if !readOnly {
				t.Release(&m.c.obj.VC)
			}
		}})
	return true
}

func (m *Map) del(k any) {
	if _, ok := m.m[k]; ok {
		delete(m.m, k)
		for i, x := range m.keys {
			if x == k {
				m.keys = append(m.keys[:i:i], m.keys[i+1:]...)
				break
			}
		}
	}
}

func (m *Map) set(k, v any) {
	if _, ok := m.m[k]; !ok {
		m.keys = append(m.keys, k)
	}
	m.m[k] = v
}

func (m *Map) Load(k any) (v any, ok bool) {
	if !m.do("Map.Load", true, func() { v, ok = m.m[k] }) && vsched.Mode() == vsched.ModeFree {
		return m.real.Load(k)
	}
	return
}

func (m *Map) Store(k, v any) {
	if !m.do("Map.Store", false, func() { m.set(k, v) }) && vsched.Mode() == vsched.ModeFree {
		m.real.Store(k, v)
	}
}

func (m *Map) LoadOrStore(k, v any) (actual any, loaded bool) {
	if !m.do("Map.LoadOrStore", false, func() {
		if actual, loaded = m.m[k]; !loaded {
			m.set(k, v)
			actual = v
		}
	}) && vsched.Mode() == vsched.ModeFree {
		return m.real.LoadOrStore(k, v)
	}
	return
}

func (m *Map) LoadAndDelete(k any) (v any, loaded bool) {
	if !m.do("Map.LoadAndDelete", false, func() { v, loaded = m.m[k]; m.del(k) }) && vsched.Mode() == vsched.ModeFree {
		return m.real.LoadAndDelete(k)
	}
	return
}

func (m *Map) Delete(k any) { m.LoadAndDelete(k) }

func (m *Map) Swap(k, v any) (prev any, loaded bool) {
	if !m.do("Map.Swap", false, func() { prev, loaded = m.m[k]; m.set(k, v) }) && vsched.Mode() == vsched.ModeFree {
		return m.real.Swap(k, v)
	}
	return
}

func (m *Map) CompareAndSwap(k, old, new any) (swapped bool) {
	if !m.do("Map.CompareAndSwap", false, func() {
		if cur, ok := m.m[k]; ok && cur == old {
			m.m[k], swapped = new, true
		}
	}) && vsched.Mode() == vsched.ModeFree {
		return m.real.CompareAndSwap(k, old, new)
	}
	return
}

func (m *Map) CompareAndDelete(k, old any) (deleted bool) {
	if !m.do("Map.CompareAndDelete", false, func() {
		if cur, ok := m.m[k]; ok && cur == old {
			m.del(k)
			deleted = true
		}
	}) && vsched.Mode() == vsched.ModeFree {
		return m.real.CompareAndDelete(k, old)
	}
	return
}

func (m *Map) Range(f func(k, v any) bool) {
	type kv struct{ k, v any }
	var snap []kv
	if !m.do("Map.Range", true, func() {
		for _, k := range m.keys {
			snap = append(snap, kv{k, m.m[k]})
		}
	}) {
		if vsched.Mode() == vsched.ModeFree {
			m.real.Range(f)
		}
		return
	}
	for _, e := range snap {
		if !f(e.k, e.v) {
			return
		}
	}
}

func (m *Map) Clear() {
	if !m.do("Map.Clear", false, func() { m.m, m.keys = map[any]any{}, nil }) && vsched.Mode() == vsched.ModeFree {
		m.real.Range(func(k, _ any) bool { m.real.Delete(k); return true })
	}
}

// ---------------------------------------------------------------- OnceFunc / OnceValue / OnceValues

func OnceFunc(f func()) func() {
	var o Once
	return func() { o.Do(f) }
}

func OnceValue[T any](f func() T) func() T {
	var o Once
	var v T
	return func() T { o.Do(func() { v = f() }); return v }
}

func OnceValues[T1, T2 any](f func() (T1, T2)) func() (T1, T2) {
	var o Once
	var v1 T1
	var v2 T2
	return func() (T1, T2) { o.Do(func() { v1, v2 = f() }); return v1, v2 }
}
