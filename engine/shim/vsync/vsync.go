// Package vsync mirrors the parts of package sync that glb uses, on top of vsched.
// Without an active scheduler every type behaves like its real counterpart.
package vsync

import (
	"sync"

	"verif/engine/shim/vsched"
)

type Locker = sync.Locker

type cell struct {
	ep  uint64
	obj *vsched.Obj
}

// fresh reports whether the logical state must be reset for a new execution.
func (c *cell) fresh(kind string) bool {
	if e := vsched.Epoch(); c.ep != e || c.obj == nil {
		c.ep = e
		c.obj = vsched.NewObj(kind)
		return true
	}
	return false
}

// ---------------------------------------------------------------- Mutex

type Mutex struct {
	real   sync.Mutex
	c      cell
	locked bool
}

func (m *Mutex) sync() {
	if m.c.fresh("mutex") {
		m.locked = false
	}
}

func (m *Mutex) Lock() {
	switch vsched.Mode() {
	case vsched.ModeFree:
		m.real.Lock()
	case vsched.ModeSched:
		m.sync()
		vsched.Post(&vsched.Op{Name: "Mutex.Lock", Obj: m.c.obj,
			Enabled: func() bool { return !m.locked },
			Exec:    func(t *vsched.Thread, _ int) { m.locked = true; t.Acquire(m.c.obj.VC) }})
	}
}

func (m *Mutex) TryLock() bool {
	switch vsched.Mode() {
	case vsched.ModeFree:
		return m.real.TryLock()
	case vsched.ModeSched:
		m.sync()
		ok := false
		vsched.Post(&vsched.Op{Name: "Mutex.TryLock", Obj: m.c.obj,
			Exec: func(t *vsched.Thread, _ int) {
				if !m.locked {
					m.locked, ok = true, true
					t.Acquire(m.c.obj.VC)
				}
			}})
		return ok
	}
	return true
}

func (m *Mutex) Unlock() {
	switch vsched.Mode() {
	case vsched.ModeFree:
		m.real.Unlock()
	case vsched.ModeSched:
		m.sync()
		bad := false
		vsched.Post(&vsched.Op{Name: "Mutex.Unlock", Obj: m.c.obj,
			Exec: func(t *vsched.Thread, _ int) {
				if !m.locked {
					bad = true
					return
				}
				m.locked = false
				t.Release(&m.c.obj.VC)
			}})
		if bad {
			panic("sync: unlock of unlocked mutex")
		}
	}
}

// ---------------------------------------------------------------- RWMutex

type RWMutex struct {
	real    sync.RWMutex
	c       cell
	writer  bool
	readers int
}

func (m *RWMutex) sync() {
	if m.c.fresh("rwmutex") {
		m.writer, m.readers = false, 0
	}
}

func (m *RWMutex) Lock() {
	switch vsched.Mode() {
	case vsched.ModeFree:
		m.real.Lock()
	case vsched.ModeSched:
		m.sync()
		vsched.Post(&vsched.Op{Name: "RWMutex.Lock", Obj: m.c.obj,
			Enabled: func() bool { return !m.writer && m.readers == 0 },
			Exec: func(t *vsched.Thread, _ int) {
				m.writer = true
				t.Acquire(m.c.obj.VC)
				t.Acquire(m.c.obj.VC2)
			}})
	}
}

func (m *RWMutex) Unlock() {
	switch vsched.Mode() {
	case vsched.ModeFree:
		m.real.Unlock()
	case vsched.ModeSched:
		m.sync()
		bad := false
		vsched.Post(&vsched.Op{Name: "RWMutex.Unlock", Obj: m.c.obj,
			Exec: func(t *vsched.Thread, _ int) {
				if !m.writer {
					bad = true
					return
				}
				m.writer = false
				t.Release(&m.c.obj.VC)
			}})
		if bad {
			panic("sync: Unlock of unlocked RWMutex")
		}
	}
}

func (m *RWMutex) RLock() {
	switch vsched.Mode() {
	case vsched.ModeFree:
		m.real.RLock()
	case vsched.ModeSched:
		m.sync()
		vsched.Post(&vsched.Op{Name: "RWMutex.RLock", Obj: m.c.obj,
			Enabled: func() bool { return !m.writer },
			Exec: func(t *vsched.Thread, _ int) {
				m.readers++
				t.Acquire(m.c.obj.VC)
			}})
	}
}

func (m *RWMutex) RUnlock() {
	switch vsched.Mode() {
	case vsched.ModeFree:
		m.real.RUnlock()
	case vsched.ModeSched:
		m.sync()
		bad := false
		vsched.Post(&vsched.Op{Name: "RWMutex.RUnlock", Obj: m.c.obj,
			Exec: func(t *vsched.Thread, _ int) {
				if m.readers <= 0 {
					bad = true
					return
				}
				m.readers--
				t.Release(&m.c.obj.VC2)
			}})
		if bad {
			panic("sync: RUnlock of unlocked RWMutex")
		}
	}
}

func (m *RWMutex) TryLock() bool {
	switch vsched.Mode() {
	case vsched.ModeFree:
		return m.real.TryLock()
	case vsched.ModeSched:
		m.sync()
		ok := false
		vsched.Post(&vsched.Op{Name: "RWMutex.TryLock", Obj: m.c.obj,
			Exec: func(t *vsched.Thread, _ int) {
				if !m.writer && m.readers == 0 {
					m.writer, ok = true, true
					t.Acquire(m.c.obj.VC)
					t.Acquire(m.c.obj.VC2)
				}
			}})
		return ok
	}
	return true
}

func (m *RWMutex) TryRLock() bool {
	switch vsched.Mode() {
	case vsched.ModeFree:
		return m.real.TryRLock()
	case vsched.ModeSched:
		m.sync()
		ok := false
		vsched.Post(&vsched.Op{Name: "RWMutex.TryRLock", Obj: m.c.obj,
			Exec: func(t *vsched.Thread, _ int) {
				if !m.writer {
					m.readers++
					ok = true
					t.Acquire(m.c.obj.VC)
				}
			}})
		return ok
	}
	return true
}

type rlocker RWMutex

func (r *rlocker) Lock()   { (*RWMutex)(r).RLock() }
func (r *rlocker) Unlock() { (*RWMutex)(r).RUnlock() }

func (m *RWMutex) RLocker() Locker { return (*rlocker)(m) }

// ---------------------------------------------------------------- WaitGroup

type WaitGroup struct {
	real sync.WaitGroup
	c    cell
	n    int
}

func (w *WaitGroup) sync() {
	if w.c.fresh("waitgroup") {
		w.n = 0
	}
}

func (w *WaitGroup) Add(delta int) {
	switch vsched.Mode() {
	case vsched.ModeFree:
		w.real.Add(delta)
	case vsched.ModeSched:
		w.sync()
		bad := false
		vsched.Post(&vsched.Op{Name: "WaitGroup.Add", Obj: w.c.obj, Code: uint64(int64(delta)),
			Exec: func(t *vsched.Thread, _ int) {
				w.n += delta
				if w.n < 0 {
					bad = true
				}
				t.Release(&w.c.obj.VC)
			}})
		if bad {
			panic("sync: negative WaitGroup counter")
		}
	}
}

func (w *WaitGroup) Done() { w.Add(-1) }

func (w *WaitGroup) Wait() {
	switch vsched.Mode() {
	case vsched.ModeFree:
		w.real.Wait()
	case vsched.ModeSched:
		w.sync()
		vsched.Post(&vsched.Op{Name: "WaitGroup.Wait", Obj: w.c.obj, ReadOnly: true,
			Enabled: func() bool { return w.n == 0 },
			Exec:    func(t *vsched.Thread, _ int) { t.Acquire(w.c.obj.VC) }})
	}
}

// Counter returns the logical counter (oracle use).
func (w *WaitGroup) Counter() int { return w.n }

// ---------------------------------------------------------------- Once

type Once struct {
	real    sync.Once
	c       cell
	done    bool
	running bool
}

func (o *Once) Do(f func()) {
	switch vsched.Mode() {
	case vsched.ModeFree:
		o.real.Do(f)
	case vsched.ModeSched:
		if o.c.fresh("once") {
			o.done, o.running = false, false
		}
		run := false
		vsched.Post(&vsched.Op{Name: "Once.enter", Obj: o.c.obj,
			Enabled: func() bool { return !o.running },
			Exec: func(t *vsched.Thread, _ int) {
				t.Acquire(o.c.obj.VC)
				if !o.done {
					o.running, run = true, true
				}
			}})
		if run {
			defer vsched.Post(&vsched.Op{Name: "Once.exit", Obj: o.c.obj,
				Exec: func(t *vsched.Thread, _ int) {
					o.done, o.running = true, false
					t.Release(&o.c.obj.VC)
				}})
			f()
		}
	}
}

// ---------------------------------------------------------------- Pool

type poolItem struct {
	v  any
	vc vsched.VC
}

// Pool is a deterministic model of sync.Pool: Get may return any pooled item or
// miss (call New). Under the scheduler the choice is explored (default: the most
// recently put item, i.e. maximal reuse); in free mode FreeChooser decides.
type Pool struct {
	New func() any

	mu    sync.Mutex
	c     cell
	items []poolItem
	fep   uint64
}

// FreeChooser, when non-nil, picks which of n pooled items a free-mode Get returns
// (0 = most recently put … n-1 = oldest, n = miss). Harnesses doing explicit-state
// search set it to enumerate pool behaviours.
var FreeChooser func(p *Pool, n int) int

// FreeEpoch is bumped by sequential harnesses to empty every pool lazily.
var FreeEpoch uint64

func (p *Pool) Get() any {
	switch vsched.Mode() {
	case vsched.ModeSched:
		if p.c.fresh("pool") {
			p.items = nil
		}
		var got any
		miss := false
		vsched.Post(&vsched.Op{Name: "Pool.Get", Obj: p.c.obj,
			NAlts: func() int { return len(p.items) + 1 },
			Exec: func(t *vsched.Thread, alt int) {
				n := len(p.items)
				if alt >= n {
					miss = true
					return
				}
				i := n - 1 - alt
				it := p.items[i]
				p.items = append(p.items[:i:i], p.items[i+1:]...)
				t.Acquire(it.vc)
				got = it.v
			}})
		if miss || got == nil {
			if p.New != nil {
				return p.New()
			}
			return nil
		}
		return got
	case vsched.ModeAbort:
		if p.New != nil {
			return p.New()
		}
		return nil
	}
	p.mu.Lock()
	if p.fep != FreeEpoch || p.c.ep != 0 {
		p.items, p.fep, p.c.ep = nil, FreeEpoch, 0
	}
	n := len(p.items)
	alt := 0
	if FreeChooser != nil {
		alt = FreeChooser(p, n)
	}
	var got any
	if alt < n {
		i := n - 1 - alt
		got = p.items[i].v
		p.items = append(p.items[:i:i], p.items[i+1:]...)
	}
	p.mu.Unlock()
	if got == nil && p.New != nil {
		return p.New()
	}
	return got
}

func (p *Pool) Put(x any) {
	if x == nil {
		return
	}
	switch vsched.Mode() {
	case vsched.ModeSched:
		if p.c.fresh("pool") {
			p.items = nil
		}
		vsched.Post(&vsched.Op{Name: "Pool.Put", Obj: p.c.obj,
			Exec: func(t *vsched.Thread, _ int) {
				var vc vsched.VC
				t.Release(&vc)
				p.items = append(p.items, poolItem{v: x, vc: vc})
			}})
	case vsched.ModeFree:
		p.mu.Lock()
		if p.fep != FreeEpoch || p.c.ep != 0 {
			p.items, p.fep, p.c.ep = nil, FreeEpoch, 0
		}
		p.items = append(p.items, poolItem{v: x})
		p.mu.Unlock()
	}
}

// Items returns the pooled values, oldest first (oracle / state-dump use).
func (p *Pool) Items() []any {
	out := make([]any, len(p.items))
	for i, it := range p.items {
		out[i] = it.v
	}
	return out
}
