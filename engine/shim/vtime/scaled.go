package vtime

import (
	"context"
	"os"
	"strconv"
	"time"
)

// Scaled timers: real timers of the real runtime, with every duration divided by
// $GLB_VERIF_TIMER_SCALE when that is set. They stand in for the timers of code that runs in
// real processes of its own, where no scheduler decides when a timer fires: running the same
// scenario once unscaled and once with all timers (nearly) immediate covers "the timer lands
// last" and "the timer lands first" - a timer that gives up on something the property requires
// to be waited for then fires before the awaited event.

func scale(d time.Duration) time.Duration {
	if s := os.Getenv("GLB_VERIF_TIMER_SCALE"); s != "" {
		if n, err := strconv.ParseInt(s, 10, 64); err == nil && n > 1 && d > 0 {
			if d = d / time.Duration(n); d < time.Millisecond {
				d = time.Millisecond
			}
		}
	}
	return d
}

func ScaledAfter(d time.Duration) <-chan time.Time          { return time.After(scale(d)) }
func ScaledTick(d time.Duration) <-chan time.Time           { return time.Tick(scale(d)) }
func ScaledNewTimer(d time.Duration) *time.Timer            { return time.NewTimer(scale(d)) }
func ScaledNewTicker(d time.Duration) *time.Ticker          { return time.NewTicker(scale(d)) }
func ScaledAfterFunc(d time.Duration, f func()) *time.Timer { return time.AfterFunc(scale(d), f) }

func ScaledWithTimeout(parent context.Context, d time.Duration) (context.Context, context.CancelFunc) {
	return context.WithTimeout(parent, scale(d))
}

func ScaledWithDeadline(parent context.Context, t time.Time) (context.Context, context.CancelFunc) {
	return context.WithTimeout(parent, scale(time.Until(t)))
}
