// Package vtime puts the clock and timers of the instrumented packages behind a seam.
package vtime

import (
	"time"

	"verif/engine/shim/vsched"
)

var fake *time.Time

// SetFake fixes the clock (nil restores the real one).
func SetFake(t *time.Time) { fake = t }

// per-thread clocks: what the current thread reads as "now" until it sets another value. With
// them a harness gives every operation its own instant, whatever the schedule, so that output
// carrying the time can be compared with the same operation performed alone.
var (
	threadNow   = map[*vsched.Thread]time.Time{}
	threadEpoch uint64
)

// SetThreadNow fixes the clock as the current thread sees it (for the whole process when no
// scheduler is active).
func SetThreadNow(t time.Time) {
	cur := vsched.Cur()
	if cur == nil {
		tt := t
		fake = &tt
		return
	}
	if e := vsched.Epoch(); e != threadEpoch {
		threadNow, threadEpoch = map[*vsched.Thread]time.Time{}, e
	}
	threadNow[cur] = t
}

func Now() time.Time {
	if cur := vsched.Cur(); cur != nil && threadEpoch == vsched.Epoch() {
		if t, ok := threadNow[cur]; ok {
			return t
		}
	}
	if fake != nil {
		return *fake
	}
	return time.Now()
}

func Since(t time.Time) time.Duration { return Now().Sub(t) }
func Until(t time.Time) time.Duration { return t.Sub(Now()) }

func Sleep(d time.Duration) {
	switch vsched.Mode() {
	case vsched.ModeSched:
		vsched.Yield("sleep")
	case vsched.ModeFree:
		time.Sleep(d)
	}
}

// After returns a timer channel: under the scheduler it fires only when the
// explorer decides so (early = one deviation, at quiescence for free).
func After(d time.Duration) *vsched.Chan[time.Time] {
	if vsched.Mode() == vsched.ModeFree {
		c := vsched.MakeChan[time.Time](1)
		time.AfterFunc(d, func() { c.Send(time.Now()) })
		return c
	}
	return vsched.NewTimerChan[time.Time](Now().Add(d))
}

func Tick(d time.Duration) *vsched.Chan[time.Time] { return After(d) }

type Timer struct {
	C *vsched.Chan[time.Time]
}

func NewTimer(d time.Duration) *Timer { return &Timer{C: After(d)} }
func (t *Timer) Stop() bool           { return vsched.StopTimer(t.C) }
func (t *Timer) Reset(d time.Duration) bool {
	was := vsched.StopTimer(t.C)
	t.C = After(d)
	return was
}

// AfterFunc runs f in a thread of its own when the explorer lets the timer fire.
func AfterFunc(d time.Duration, f func()) *Timer {
	if vsched.Mode() == vsched.ModeFree {
		rt := time.AfterFunc(d, f)
		_ = rt
		return &Timer{}
	}
	t := &Timer{C: After(d)}
	c := t.C
	vsched.GoNamed("time.AfterFunc", func() {
		if _, ok := c.Recv2(); ok {
			f()
		}
	})
	return t
}

// Ticker ticks at most maxTicks times per execution (a bounded unrolling of a periodic
// source; each tick is a timer the explorer fires when it decides to).
type Ticker struct {
	C    *vsched.Chan[time.Time]
	cur  *vsched.Chan[time.Time]
	stop *vsched.Chan[struct{}]
}

const maxTicks = 2

func NewTicker(d time.Duration) *Ticker {
	tk := &Ticker{C: vsched.MakeChan[time.Time](1).SetName("ticker.C"), stop: vsched.MakeChan[struct{}]().SetName("ticker.stop")}
	if vsched.Mode() != vsched.ModeSched {
		return tk
	}
	vsched.GoNamed("time.Ticker", func() {
		for i := 0; i < maxTicks; i++ {
			tc := After(d)
			rt, rs := vsched.RecvCase(tc), vsched.RecvCase(tk.stop)
			s := vsched.Select(false, rt, rs)
			if s.I != 0 {
				vsched.StopTimer(tc)
				return
			}
			vsched.Select(true, vsched.SendCase(tk.C, rt.Val(s))) // a slow receiver loses ticks
		}
	})
	return tk
}

func (t *Ticker) Stop() {
	if vsched.Mode() == vsched.ModeSched && !t.stop.RawClosed() {
		t.stop.Close()
	}
}

func (t *Ticker) Reset(d time.Duration) {}
