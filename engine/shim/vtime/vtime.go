// Package vtime puts the clock and timers of the instrumented packages behind a seam.
package vtime

import (
	"time"

	"github.com/whoisnian/glb/zzverif/vsched"
)

var fake *time.Time

// SetFake fixes the clock (nil restores the real one).
func SetFake(t *time.Time) { fake = t }

func Now() time.Time {
	if fake != nil {
		return *fake
	}
	return time.Now()
}

func Since(t time.Time) time.Duration { return Now().Sub(t) }
func Until(t time.Time) time.Duration { return t.Sub(Now()) }

func Sleep(d time.Duration) {
	switch vsched.Mode() {
	case vsched.ModeSched:
		vsched.Yield("sleep")
	case vsched.ModeFree:
		time.Sleep(d)
	}
}

// After returns a timer channel: under the scheduler it fires only when the
// explorer decides so (early = one deviation, at quiescence for free).
func After(d time.Duration) *vsched.Chan[time.Time] {
	return vsched.NewTimerChan[time.Time](Now().Add(d))
}

func Tick(d time.Duration) *vsched.Chan[time.Time] { return After(d) }

type Timer struct {
	C *vsched.Chan[time.Time]
}

func NewTimer(d time.Duration) *Timer { return &Timer{C: After(d)} }
func (t *Timer) Stop() bool           { return vsched.StopTimer(t.C) }
func (t *Timer) Reset(d time.Duration) bool {
	was := vsched.StopTimer(t.C)
	t.C = After(d)
	return was
}
