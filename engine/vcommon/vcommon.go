// Package vcommon holds what every check shares: tier/shard flags, evidence files,
// replay artefacts, the VIOLATION / KNOWN-FINDING protocol and process sharding.
package vcommon

import (
	"bufio"
	"crypto/sha1"
	"encoding/hex"
	"encoding/json"
	"flag"
	"fmt"
	"os"
	"os/exec"
	"path/filepath"
	"runtime"
	"sort"
	"strconv"
	"strings"
	"sync"
	"time"
)

var (
	ID       = flag.String("id", "", "property id")
	Tier     = flag.String("tier", "quick", "quick | thorough")
	Shard    = flag.String("shard", "", "i/N: run as worker i of N and print a JSON result")
	Root     = flag.String("root", "/verif", "verification root")
	ReplayF  = flag.String("replay", "", "replay file")
	Variant  = flag.String("variant", "", "build variant tag (set by run.sh)")
	Part     = flag.String("part", "", "write a partial result to this file instead of the evidence (multi-build checks)")
	MergeIn  = flag.String("merge", "", "comma-separated partial result files to merge into the evidence")
	RacePass = flag.String("racepass", "", "directory with the output of the free-running -race pass (result.json, race.* logs)")
)

var Start = time.Now()

func Seed() int {
	n, _ := strconv.Atoi(os.Getenv("VERIF_SEED"))
	return n
}

func Thorough() bool { return *Tier == "thorough" }

// Deadline returns the internal time cap of this tier (quick ≈ 60 s, thorough ≈ 15 min);
// hitting it ends exploration with exhaustive:false, never with an alarm.
func Deadline() time.Time {
	if v := os.Getenv("VERIF_CAP_S"); v != "" {
		if n, err := strconv.Atoi(v); err == nil {
			return Start.Add(time.Duration(n) * time.Second)
		}
	}
	if Thorough() {
		return Start.Add(14 * time.Minute)
	}
	return Start.Add(55 * time.Second)
}

func ShardSpec() (i, n int, worker bool) {
	if *Shard == "" {
		return 0, 1, false
	}
	a, b, _ := strings.Cut(*Shard, "/")
	i, _ = strconv.Atoi(a)
	n, _ = strconv.Atoi(b)
	return i, n, true
}

func NProc() int {
	n := runtime.NumCPU()
	if v := os.Getenv("VERIF_PROCS"); v != "" {
		if k, err := strconv.Atoi(v); err == nil && k > 0 {
			n = k
		}
	}
	return n
}

// ---------------------------------------------------------------- violations

type Violation struct {
	Property    string `json:"property"`
	Scenario    string `json:"scenario"`
	Fingerprint string `json:"fingerprint"` // stable identity of the failing input / history
	Message     string `json:"message"`
	Witness     any    `json:"witness"`
	ReplayGo    string `json:"replay_go_test,omitempty"` // plain Go test reproducing it without the explorer
	Tier        string `json:"tier"`
}

type known struct {
	kind, prop, fp, text string
}

func loadKnown(root string) []known {
	f, err := os.Open(filepath.Join(root, "known_findings.txt"))
	if err != nil {
		return nil
	}
	defer f.Close()
	var out []known
	sc := bufio.NewScanner(f)
	for sc.Scan() {
		l := strings.TrimSpace(sc.Text())
		if l == "" || strings.HasPrefix(l, "#") {
			continue
		}
		kind, rest, ok := strings.Cut(l, ":")
		if !ok {
			continue
		}
		k := known{kind: strings.TrimSpace(kind), text: strings.TrimSpace(rest)}
		for _, w := range strings.Fields(rest) {
			if v, ok := strings.CutPrefix(w, "property="); ok {
				k.prop = v
			}
			if v, ok := strings.CutPrefix(w, "fingerprint="); ok {
				k.fp = v
			}
		}
		out = append(out, k)
	}
	return out
}

// Report handles the violations of one run: known findings are printed as such,
// everything else gets a replay file and a VIOLATION line. Returns the exit code.
// racePass reads the result of the free-running -race pass, if one was made.
func racePass() (info map[string]any, races []string) {
	if *RacePass == "" {
		return nil, nil
	}
	info = map[string]any{"ran": false}
	data, err := os.ReadFile(filepath.Join(*RacePass, "result.json"))
	if err != nil || json.Unmarshal(data, &info) != nil {
		info["note"] = "the -race driver did not complete"
		return info, nil
	}
	info["ran"] = true
	logs, _ := filepath.Glob(filepath.Join(*RacePass, "race.*"))
	for _, l := range logs {
		b, _ := os.ReadFile(l)
		for _, rep := range strings.Split(string(b), "==================") {
			if strings.Contains(rep, "WARNING: DATA RACE") {
				races = append(races, strings.TrimSpace(rep))
			}
		}
	}
	info["data_races_reported"] = len(races)
	info["note"] = "sampling complement on the uninstrumented packages under go build -race; never the deciding step"
	return info, races
}

// raceFingerprint identifies a race report by the functions of its two top frames.
func raceFingerprint(rep string) string {
	var fr []string
	for _, l := range strings.Split(rep, "\n") {
		l = strings.TrimSpace(l)
		if strings.HasPrefix(l, "github.com/whoisnian/glb/") && strings.HasSuffix(l, ")") {
			fr = append(fr, l[:strings.LastIndexByte(l, '(')])
			if len(fr) == 2 {
				break
			}
		}
	}
	return "race|" + strings.Join(fr, "|")
}

// RaceViolates says whether a report of the Go race detector (free-running pass) violates
// property id. Only properties that state freedom from data races say yes; for the others
// the reports are listed in the evidence file.
var RaceViolates = func(id, report string) bool { return false }

func Report(id string, vs []Violation) (exit int, nNew int) {
	if _, races := racePass(); len(races) > 0 {
		noted := map[string]bool{}
		for _, r := range races {
			if !RaceViolates(id, r) {
				if noted[raceFingerprint(r)] {
					continue
				}
				noted[raceFingerprint(r)] = true
				fmt.Printf("NOTE: the free-running -race pass reports a data race (%s); %s does not speak of data races, see the evidence file\n", raceFingerprint(r), id)
				continue
			}
			vs = append(vs, Violation{Scenario: "free-running -race pass", Fingerprint: raceFingerprint(r), Message: id + ": the Go race detector reports a data race on the real packages:\n" + firstLines(r, 30), Witness: map[string]any{"report": r}})
		}
	}
	if *ReplayF != "" {
		// replay of a recorded violation by re-running the enumeration: reproduced iff the
		// same fingerprint (failing input / history / class) is reported again
		var rec Violation
		data, err := os.ReadFile(*ReplayF)
		if err != nil || json.Unmarshal(data, &rec) != nil {
			Infra("cannot read replay file %s", *ReplayF)
		}
		for _, v := range vs {
			if v.Fingerprint == rec.Fingerprint {
				fmt.Printf("REPRODUCED property=%s fingerprint=%s\n  %s\n", id, v.Fingerprint, firstLines(v.Message, 12))
				os.Exit(1)
			}
		}
		fmt.Printf("not reproduced: no violation with fingerprint %q on this tree (%d other violations)\n", rec.Fingerprint, len(vs))
		os.Exit(0)
	}
	kn := loadKnown(*Root)
	seen := map[string]bool{}
	for _, v := range vs {
		if seen[v.Fingerprint] {
			continue
		}
		seen[v.Fingerprint] = true
		isKnown := false
		for _, k := range kn {
			if k.kind == "known" && k.prop == id && k.fp != "" && k.fp == v.Fingerprint {
				fmt.Printf("KNOWN-FINDING: property=%s %s\n", id, k.text)
				isKnown = true
			}
		}
		if isKnown {
			continue
		}
		v.Property, v.Tier = id, *Tier
		h := sha1.Sum([]byte(v.Fingerprint))
		dir := filepath.Join(*Root, "replays")
		os.MkdirAll(dir, 0o755)
		p := filepath.Join(dir, id+"-"+hex.EncodeToString(h[:6])+".json")
		data, _ := json.MarshalIndent(v, "", " ")
		os.WriteFile(p, data, 0o644)
		fmt.Printf("VIOLATION property=%s replay=%s\n", id, p)
		fmt.Printf("  scenario=%s fingerprint=%s\n  %s\n", v.Scenario, v.Fingerprint, firstLines(v.Message, 12))
		nNew++
	}
	if nNew > 0 {
		return 1, nNew
	}
	return 0, 0
}

func firstLines(s string, n int) string {
	ls := strings.Split(s, "\n")
	if len(ls) > n {
		ls = append(ls[:n], "…")
	}
	return strings.Join(ls, "\n  ")
}

// ---------------------------------------------------------------- evidence

type Evidence struct {
	PropertyID  string         `json:"property_id"`
	Tier        string         `json:"tier"`
	Seed        int            `json:"seed"`
	Level       string         `json:"level"`
	Coverage    map[string]any `json:"coverage"`
	Assumptions []string       `json:"assumptions"`
	WallS       float64        `json:"wall_s"`
	Violations  int            `json:"violations"`
}

func WriteEvidence(e *Evidence) {
	if *ReplayF != "" {
		return
	}
	if info, races := racePass(); info != nil && e.Coverage != nil {
		var fps []string
		for _, r := range races {
			fps = append(fps, raceFingerprint(r))
		}
		if len(fps) > 0 {
			info["reports"] = fps
		}
		e.Coverage["race_pass"] = info
	}
	e.Tier = *Tier
	e.Seed = Seed()
	e.WallS = time.Since(Start).Seconds()
	dir := filepath.Join(*Root, "evidence")
	if d := os.Getenv("VERIF_EVIDENCE_DIR"); d != "" {
		dir = d // runs against a scratch copy of the library keep their evidence apart
	}
	os.MkdirAll(dir, 0o755)
	data, _ := json.MarshalIndent(e, "", " ")
	if err := os.WriteFile(filepath.Join(dir, e.PropertyID+".json"), append(data, '\n'), 0o644); err != nil {
		Infra("cannot write evidence: %v", err)
	}
}

// Infra ends the check with exit code 2 and no VIOLATION line: a broken tool must
// never be reported as a broken property.
func Infra(f string, a ...any) {
	fmt.Printf("INFRA-ERROR "+f+"\n", a...)
	Cleanup()
	os.Exit(2)
}

var (
	cleanMu  sync.Mutex
	cleanups []func()
)

// AtExit registers f to run before the process ends through Infra or Exit (os.Exit skips
// deferred calls): scratch directories, helper processes.
func AtExit(f func()) {
	cleanMu.Lock()
	cleanups = append(cleanups, f)
	cleanMu.Unlock()
}

// TempDir makes a scratch directory that is removed when the process ends.
func TempDir(parent, pattern string) (string, error) {
	d, err := os.MkdirTemp(parent, pattern)
	if err == nil {
		AtExit(func() { os.RemoveAll(d) })
	}
	return d, err
}

// Cleanup runs what AtExit registered, latest first, once.
func Cleanup() {
	cleanMu.Lock()
	fs := cleanups
	cleanups = nil
	cleanMu.Unlock()
	for i := len(fs) - 1; i >= 0; i-- {
		fs[i]()
	}
}

// Exit ends the process after Cleanup.
func Exit(code int) {
	Cleanup()
	os.Exit(code)
}

// ---------------------------------------------------------------- sharding

// RunShards re-executes this binary n times with -shard i/n (plus extra args) and
// returns each worker's stdout (expected to be one JSON document).
func RunShards(n int, extra ...string) [][]byte {
	outs := make([][]byte, n)
	errs := make([]error, n)
	var wg sync.WaitGroup
	for i := 0; i < n; i++ {
		wg.Add(1)
		go func(i int) {
			defer wg.Done()
			args := []string{"-id", *ID, "-tier", *Tier, "-root", *Root, "-shard", fmt.Sprintf("%d/%d", i, n)}
			if *Variant != "" {
				args = append(args, "-variant", *Variant)
			}
			args = append(args, extra...)
			cmd := exec.Command(os.Args[0], args...)
			cmd.Stderr = os.Stderr
			cmd.Env = append(os.Environ(), "GOMAXPROCS=2", fmt.Sprintf("VERIF_START_UNIX=%d", Start.Unix()))
			outs[i], errs[i] = cmd.Output()
		}(i)
	}
	wg.Wait()
	for i, e := range errs {
		if e != nil {
			Infra("shard %d failed: %v\n%s", i, e, outs[i])
		}
	}
	return outs
}

func SortedKeys[V any](m map[string]V) []string {
	ks := make([]string, 0, len(m))
	for k := range m {
		ks = append(ks, k)
	}
	sort.Strings(ks)
	return ks
}

func init() {
	if v := os.Getenv("VERIF_START_UNIX"); v != "" {
		if n, err := strconv.ParseInt(v, 10, 64); err == nil {
			Start = time.Unix(n, 0)
		}
	}
}

// RunJobs runs this binary once per job (argument list) with at most NProc in
// parallel and returns each job's stdout.
func RunJobs(jobs [][]string) [][]byte { return RunJobsWith(jobs, nil) }

// RunJobsWith is RunJobs with arguments computed when a job actually starts: atStart gets the
// number of jobs not yet started (this one included), so that a time budget can be shared out
// over what is really left instead of a worst case fixed in advance.
func RunJobsWith(jobs [][]string, atStart func(remaining int) []string) [][]byte {
	var startMu sync.Mutex
	started := 0
	outs := make([][]byte, len(jobs))
	errs := make([]error, len(jobs))
	sem := make(chan struct{}, NProc())
	var wg sync.WaitGroup
	for i := range jobs {
		wg.Add(1)
		go func(i int) {
			defer wg.Done()
			sem <- struct{}{}
			defer func() { <-sem }()
			args := append([]string{"-id", *ID, "-tier", *Tier, "-root", *Root, "-variant", *Variant}, jobs[i]...)
			if atStart != nil {
				startMu.Lock()
				args = append(args, atStart(len(jobs)-started)...)
				started++
				startMu.Unlock()
			}
			cmd := exec.Command(os.Args[0], args...)
			cmd.Stderr = os.Stderr
			cmd.Env = append(os.Environ(), "GOMAXPROCS=2", fmt.Sprintf("VERIF_START_UNIX=%d", Start.Unix()))
			outs[i], errs[i] = cmd.Output()
		}(i)
	}
	wg.Wait()
	for i, e := range errs {
		if e != nil {
			Infra("job %v failed: %v\n%s", jobs[i], e, outs[i])
		}
	}
	return outs
}
