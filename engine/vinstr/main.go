// Command vinstr builds instrumented copies of the glb packages under test and a
// `go build -overlay` file that mounts them (and the shim packages) over the tree,
// leaving the tree itself untouched.
//
// The rewriting is type-directed (go/types with the source importer): references to
// sync, sync/atomic, time, context and os are redirected to the shim packages,
// channels / select / go statements are rewritten to scheduler calls, and plain
// accesses to struct fields and mutated package variables are wrapped in race
// monitors. Anything not recognised is left exactly as written.
package main

import (
	"bytes"
	"encoding/json"
	"flag"
	"fmt"
	"go/ast"
	"go/build"
	"go/importer"
	"go/parser"
	"go/printer"
	"go/token"
	"go/types"
	"os"
	"path/filepath"
	"sort"
	"strconv"
	"strings"

	"golang.org/x/tools/go/ast/astutil"
)

const shimBase = "verif/engine/shim/"

type pkgConf struct {
	abs   string   // absolute directory (extra packages outside the tree); empty: repo/dir
	path  string   // import path (extra packages); empty: github.com/whoisnian/glb/<dir>
	dir   string   // relative to repo
	chans bool     // rewrite channels, select, go, timers
	ctx   bool     // context -> vctx
	vos   bool     // os / io -> vos
	files []string // restrict to these files (nil = all non-test files)
	// timersOnly: nothing is rewritten but timer construction (time.After, NewTimer, AfterFunc,
	// NewTicker, Tick, context.WithTimeout / WithDeadline), which goes through vtime's scaled
	// real timers: used for code that runs in real processes of its own (daemon)
	timersOnly bool
}

var targets = []pkgConf{
	{dir: "tasklane", chans: true, ctx: true},
	{dir: "util/netutil", chans: true},
	{dir: "util/ioutil", chans: true},
	{dir: "httpd", chans: true},
	{dir: "logger", chans: true},
	{dir: "util/osutil", vos: true, chans: true, files: []string{"file.go"}}, // chans: a copy that uses goroutines of its own is explored (C18 S-copy)
	{dir: "daemon", timersOnly: true},
}

var (
	repo     = flag.String("repo", "/repo", "tree to instrument")
	out      = flag.String("out", "", "output directory")
	shimDir  = flag.String("shim", "", "directory holding the shim packages")
	only     = flag.String("pkgs", "", "comma-separated subset of package dirs (default all)")
	consts   = flag.String("const", "", "constant overrides pkgdir:name=value,...")
	noFields = flag.Bool("nofields", false, "do not insert field access monitors")
	extra    = flag.String("extra", "", "extra package to instrument with all rewrites: <abs dir>=<import path>")
	dump     = flag.Bool("dump", false, "print instrumented sources to stdout")
	noReset  = flag.Bool("noreset", false, "do not generate the per-execution reset of package-level state")
)

func fatal(f string, a ...any) {
	fmt.Fprintf(os.Stderr, "INFRA-ERROR vinstr: "+f+"\n", a...)
	os.Exit(2)
}

func main() {
	flag.Parse()
	if *out == "" || *shimDir == "" {
		fatal("need -out and -shim")
	}
	abs, err := filepath.Abs(*repo)
	if err != nil {
		fatal("%v", err)
	}
	*repo = abs
	if *out, err = filepath.Abs(*out); err != nil {
		fatal("%v", err)
	}
	if *shimDir, err = filepath.Abs(*shimDir); err != nil {
		fatal("%v", err)
	}
	if err := os.MkdirAll(*out, 0o755); err != nil {
		fatal("%v", err)
	}
	if err := os.Chdir(*repo); err != nil {
		fatal("%v", err)
	}
	overlay := map[string]string{}
	// the shim packages are ordinary packages of the verif module (real directories: one of them
	// has an assembly file), imported by the instrumented code as verif/engine/shim/...
	_ = *shimDir
	constOv := map[string]map[string]string{}
	if *consts != "" {
		for _, c := range strings.Split(*consts, ",") {
			pd, rest, ok := strings.Cut(c, ":")
			n, v, ok2 := strings.Cut(rest, "=")
			if !ok || !ok2 {
				fatal("bad -const %q", c)
			}
			if constOv[pd] == nil {
				constOv[pd] = map[string]string{}
			}
			constOv[pd][n] = v
		}
	}
	want := map[string]bool{}
	if *only != "" {
		for _, p := range strings.Split(*only, ",") {
			want[p] = true
		}
	}
	targetPkgs := map[string]bool{}
	for _, t := range targets {
		targetPkgs["github.com/whoisnian/glb/"+t.dir] = true
	}
	if *extra != "" {
		d, p, ok := strings.Cut(*extra, "=")
		if !ok {
			fatal("bad -extra")
		}
		d, _ = filepath.Abs(d)
		targets = append(targets, pkgConf{abs: d, path: p, dir: "extra", chans: true, ctx: true})
		targetPkgs[p] = true
	}
	// packages of the module that the targets import and that did not exist when this list was
	// written (code moved into a new internal package) are instrumented with every rewrite
	if len(want) == 0 {
		for i := 0; i < len(targets); i++ {
			if targets[i].abs != "" {
				continue
			}
			for _, imp := range internalImports(filepath.Join(*repo, targets[i].dir)) {
				d := strings.TrimPrefix(imp, "github.com/whoisnian/glb/")
				if knownPkgs[d] || targetPkgs[imp] || strings.HasPrefix(d, "zzverif/") || strings.HasPrefix(imp, "verif/") {
					continue
				}
				if st, err := os.Stat(filepath.Join(*repo, d)); err != nil || !st.IsDir() {
					continue
				}
				fmt.Fprintf(os.Stderr, "vinstr: NOTE new package %s imported by %s is instrumented too\n", d, targets[i].dir)
				if targets[i].timersOnly {
					targets = append(targets, pkgConf{dir: d, timersOnly: true}) // runs in real processes, like its importer
				} else {
					targets = append(targets, pkgConf{dir: d, chans: true, ctx: targets[i].ctx})
				}
				targetPkgs[imp] = true
			}
		}
	}
	for _, t := range targets {
		if len(want) > 0 && !want[t.dir] && t.abs == "" {
			continue
		}
		if err := instrumentPkg(t, constOv[t.dir], targetPkgs, overlay); err != nil {
			fatal("%s: %v", t.dir, err)
		}
	}
	for pd, m := range constOv {
		for n := range m {
			if !constApplied[pd+":"+n] {
				fmt.Fprintf(os.Stderr, "vinstr: NOTE constant %s:%s not found; using the tree's value\n", pd, n)
				fmt.Printf("CONST-NOT-FOUND %s:%s\n", pd, n)
			}
		}
	}
	data, _ := json.MarshalIndent(map[string]any{"Replace": overlay}, "", " ")
	if err := os.WriteFile(filepath.Join(*out, "overlay.json"), data, 0o644); err != nil {
		fatal("%v", err)
	}
}

// knownPkgs are the module's packages at the time the target list was written; those not among
// the targets use no synchronisation that would have to be modelled.
var knownPkgs = map[string]bool{"ansi": true, "config": true, "daemon": true, "httpd": true, "logger": true, "tasklane": true,
	"util/fsutil": true, "util/ioutil": true, "util/netutil": true, "util/osutil": true, "util/strutil": true}

// internalImports lists the module-internal import paths of the non-test files in dir.
func internalImports(dir string) []string {
	seen := map[string]bool{}
	var out []string
	files, _ := filepath.Glob(filepath.Join(dir, "*.go"))
	for _, f := range files {
		if strings.HasSuffix(f, "_test.go") {
			continue
		}
		af, err := parser.ParseFile(token.NewFileSet(), f, nil, parser.ImportsOnly)
		if err != nil {
			continue
		}
		for _, im := range af.Imports {
			p, _ := strconv.Unquote(im.Path.Value)
			if strings.HasPrefix(p, "github.com/whoisnian/glb/") && !seen[p] {
				seen[p] = true
				out = append(out, p)
			}
		}
	}
	return out
}

var constApplied = map[string]bool{}

type rewriter struct {
	conf    pkgConf
	fset    *token.FileSet
	info    *types.Info
	pkg     *types.Package
	targets map[string]bool
	consts  map[string]string

	usedShims map[string]bool
	tmp       int

	// marks made on the way down
	skipComm     map[ast.Node]bool        // channel operations that belong to a select clause
	recv2        map[ast.Node]bool        // <-ch whose second result is used
	chanCall     map[*ast.CallExpr]string // close/len/cap on a channel
	makeChan     map[*ast.CallExpr]bool
	rangeChan    map[*ast.RangeStmt]bool
	writeCtx     map[ast.Expr]bool // selector / ident written by its parent
	noMonitor    map[ast.Expr]bool // operand of &, or otherwise not to be wrapped
	labelOf      map[ast.Stmt]*ast.Ident
	mutatedVar   map[types.Object]bool
	origX        map[*ast.SelectorExpr]ast.Expr  // operand of a selector before rewriting
	wExpr        map[ast.Expr]wInfo              // generated (*vsched.W(&x, name)) expressions
	rhsType      map[ast.Stmt]types.TypeAndValue // type of the single right-hand side of an assignment, before rewriting
	lhsPure      map[ast.Stmt]bool               // the assignment's left-hand side can be evaluated twice / later without effect
	inGenerated  bool                            // inside the generated reset code: no access monitors
	pendingLabel *ast.Ident
}

func instrumentPkg(conf pkgConf, consts map[string]string, targets map[string]bool, overlay map[string]string) error {
	dir := filepath.Join(*repo, conf.dir)
	if conf.abs != "" {
		dir = conf.abs
	}
	fset := token.NewFileSet()
	bctx := build.Default
	ents, err := os.ReadDir(dir)
	if err != nil {
		return err
	}
	var files []*ast.File
	var names []string
	for _, e := range ents {
		n := e.Name()
		if e.IsDir() || !strings.HasSuffix(n, ".go") || strings.HasSuffix(n, "_test.go") {
			continue
		}
		if ok, _ := bctx.MatchFile(dir, n); !ok {
			continue
		}
		f, err := parser.ParseFile(fset, filepath.Join(dir, n), nil, parser.ParseComments)
		if err != nil {
			return err
		}
		files = append(files, f)
		names = append(names, n)
	}
	ipath := "github.com/whoisnian/glb/" + conf.dir
	if conf.path != "" {
		ipath = conf.path
	}
	hasEmbed := false
	for _, n := range names {
		if raw, err := os.ReadFile(filepath.Join(dir, n)); err == nil && bytes.Contains(raw, []byte("\n//go:embed ")) {
			hasEmbed = true // such files are left alone (see below), so nothing is generated into them
		}
	}
	if conf.files == nil && !*noReset && !conf.timersOnly && !hasEmbed {
		// package-level state must start afresh in every execution: add a function that re-runs
		// the package's variable initialisation and init functions (see resetGlobals)
		aug, err := resetGlobals(dir, ipath, fset, files, names)
		if err != nil {
			return fmt.Errorf("reset of package-level state: %v", err)
		}
		if aug != nil {
			fset = token.NewFileSet()
			files = files[:0]
			for i, n := range names {
				f, err := parser.ParseFile(fset, filepath.Join(dir, n), aug[i], parser.ParseComments)
				if err != nil {
					return fmt.Errorf("generated reset code in %s: %v", n, err)
				}
				files = append(files, f)
			}
		}
	}
	info := &types.Info{
		Types:      map[ast.Expr]types.TypeAndValue{},
		Uses:       map[*ast.Ident]types.Object{},
		Defs:       map[*ast.Ident]types.Object{},
		Selections: map[*ast.SelectorExpr]*types.Selection{},
	}
	tc := types.Config{Importer: importer.ForCompiler(fset, "source", nil), Error: func(error) {}}
	pkg, err := tc.Check(ipath, fset, files, info)
	if err != nil {
		return fmt.Errorf("type check: %v", err)
	}
	rw := &rewriter{conf: conf, fset: fset, info: info, pkg: pkg, targets: targets, consts: consts}
	rw.findMutatedVars(files)
	for i, f := range files {
		if conf.files != nil {
			keep := false
			for _, n := range conf.files {
				if n == names[i] {
					keep = true
				}
			}
			if !keep {
				continue
			}
		}
		if raw, err := os.ReadFile(filepath.Join(dir, names[i])); err == nil && bytes.Contains(raw, []byte("\n//go:embed ")) {
			// the rewriter drops comments, and an embed directive is one: such a file is left as it is
			fmt.Fprintf(os.Stderr, "vinstr: NOTE %s/%s carries //go:embed and is not instrumented\n", conf.dir, names[i])
			continue
		}
		src, err := rw.file(f)
		if err != nil {
			return fmt.Errorf("%s: %v", names[i], err)
		}
		dst := filepath.Join(*out, strings.ReplaceAll(conf.dir, "/", "_")+"__"+names[i])
		if err := os.WriteFile(dst, src, 0o644); err != nil {
			return err
		}
		if *dump {
			fmt.Printf("// ===== %s/%s\n%s\n", conf.dir, names[i], src)
		}
		overlay[filepath.Join(dir, names[i])] = dst
	}
	return nil
}

// resetGlobals returns the package's sources with a function verifResetGlobals added that puts
// every package-level variable back to its initial state: zero value, then the initialisers
// in the order the language prescribes (types.Info.InitOrder), then the init functions in
// file order. The scheduler calls it before every execution, so that state kept in
// package-level variables (caches, free lists, counters, "last value" memos) cannot leak from
// one explored execution into the next - which would make executions irreproducible.
// The additions are plain source text, type-checked and instrumented with the rest.
func resetGlobals(dir, ipath string, fset *token.FileSet, files []*ast.File, names []string) ([][]byte, error) {
	info := &types.Info{Defs: map[*ast.Ident]types.Object{}}
	tc := types.Config{Importer: importer.ForCompiler(fset, "source", nil), Error: func(error) {}}
	if _, err := tc.Check(ipath, fset, files, info); err != nil {
		return nil, nil // the ordinary type check below reports it
	}
	src := make([][]byte, len(files))
	add := make([]strings.Builder, len(files))
	fileOf := func(pos token.Pos) int {
		for i, f := range files {
			if f.FileStart <= pos && pos <= f.FileEnd {
				return i
			}
		}
		return -1
	}
	for i, n := range names {
		b, err := os.ReadFile(filepath.Join(dir, n))
		if err != nil {
			return nil, err
		}
		src[i] = b
	}
	text := func(n ast.Node) string {
		i := fileOf(n.Pos())
		return string(src[i][fset.Position(n.Pos()).Offset:fset.Position(n.End()).Offset])
	}
	var calls []string
	// every variable to its zero value first
	var zero []string
	for _, f := range files {
		for _, d := range f.Decls {
			gd, ok := d.(*ast.GenDecl)
			if !ok || gd.Tok != token.VAR {
				continue
			}
			for _, sp := range gd.Specs {
				for _, nm := range sp.(*ast.ValueSpec).Names {
					if nm.Name != "_" {
						zero = append(zero, nm.Name)
					}
				}
			}
		}
	}
	// initialisers, each in the file that declares it (its imports are the right ones)
	for k, in := range info.InitOrder {
		i := fileOf(in.Rhs.Pos())
		if i < 0 {
			continue
		}
		var lhs []string
		for _, v := range in.Lhs {
			lhs = append(lhs, v.Name())
		}
		fn := fmt.Sprintf("verifInitVar%d", k)
		fmt.Fprintf(&add[i], "\nfunc %s() { %s = %s }\n", fn, strings.Join(lhs, ", "), text(in.Rhs))
		calls = append(calls, fn)
	}
	// init functions: renamed, called from a new init and from the reset
	type edit struct {
		off int
		new string
	}
	edits := make([][]edit, len(files))
	nInit := 0
	for i, f := range files {
		for _, d := range f.Decls {
			fd, ok := d.(*ast.FuncDecl)
			if !ok || fd.Recv != nil || fd.Name.Name != "init" {
				continue
			}
			fn := fmt.Sprintf("verifInitFunc%d", nInit)
			nInit++
			edits[i] = append(edits[i], edit{fset.Position(fd.Name.Pos()).Offset, fn})
			fmt.Fprintf(&add[i], "\nfunc init() { %s() }\n", fn)
			calls = append(calls, fn)
		}
	}
	if len(zero) == 0 && len(calls) == 0 {
		return nil, nil
	}
	var m strings.Builder
	m.WriteString("\nfunc verifZero[T any](T) (z T) { return }\n\nfunc verifResetGlobals() {\n")
	for _, z := range zero {
		fmt.Fprintf(&m, "\t%s = verifZero(%s)\n", z, z)
	}
	for _, c := range calls {
		fmt.Fprintf(&m, "\t%s()\n", c)
	}
	m.WriteString("}\n")
	add[0].WriteString(m.String())
	out := make([][]byte, len(files))
	for i := range files {
		b := src[i]
		// apply the renames back to front
		for k := len(edits[i]) - 1; k >= 0; k-- {
			e := edits[i][k]
			b = append(append(append([]byte{}, b[:e.off]...), e.new...), b[e.off+len("init"):]...)
		}
		out[i] = append(b, add[i].String()...)
	}
	return out, nil
}

// ---------------------------------------------------------------- helpers to build nodes

func id(n string) *ast.Ident { return ast.NewIdent(n) }

func sel(x ast.Expr, n string) *ast.SelectorExpr { return &ast.SelectorExpr{X: x, Sel: id(n)} }

func call(fun ast.Expr, args ...ast.Expr) *ast.CallExpr { return &ast.CallExpr{Fun: fun, Args: args} }

func str(s string) *ast.BasicLit { return &ast.BasicLit{Kind: token.STRING, Value: strconv.Quote(s)} }

func (rw *rewriter) shim(pkg, name string) ast.Expr {
	rw.usedShims[pkg] = true
	return sel(id(pkg), name)
}

func (rw *rewriter) fresh(prefix string) string {
	rw.tmp++
	return fmt.Sprintf("_v%s%d", prefix, rw.tmp)
}

func unparen(e ast.Expr) ast.Expr {
	for {
		p, ok := e.(*ast.ParenExpr)
		if !ok {
			return e
		}
		e = p.X
	}
}

func (rw *rewriter) isChan(e ast.Expr) bool {
	tv, ok := rw.info.Types[e]
	if !ok || tv.Type == nil {
		return false
	}
	_, ok = tv.Type.Underlying().(*types.Chan)
	return ok
}

func (rw *rewriter) isBuiltin(fun ast.Expr, name string) bool {
	i, ok := unparen(fun).(*ast.Ident)
	if !ok || i.Name != name {
		return false
	}
	_, ok = rw.info.Uses[i].(*types.Builtin)
	return ok
}

func (rw *rewriter) pkgOf(e ast.Expr) string {
	i, ok := e.(*ast.Ident)
	if !ok {
		return ""
	}
	if pn, ok := rw.info.Uses[i].(*types.PkgName); ok {
		return pn.Imported().Path()
	}
	return ""
}

// ---------------------------------------------------------------- which package variables are ever mutated

func (rw *rewriter) pkgVar(e ast.Expr) types.Object {
	i, ok := unparen(e).(*ast.Ident)
	if !ok {
		return nil
	}
	v, ok := rw.info.Uses[i].(*types.Var)
	if !ok || v.IsField() || v.Parent() != rw.pkg.Scope() {
		return nil
	}
	return v
}

func baseOfIndex(e ast.Expr) ast.Expr {
	for {
		e = unparen(e)
		switch x := e.(type) {
		case *ast.IndexExpr:
			e = x.X
		case *ast.SliceExpr:
			e = x.X
		default:
			return e
		}
	}
}

// generated reports whether fd was added by resetGlobals.
func generated(fd *ast.FuncDecl) bool {
	return fd.Recv == nil && (strings.HasPrefix(fd.Name.Name, "verifInitVar") || fd.Name.Name == "verifResetGlobals" || fd.Name.Name == "verifZero")
}

func (rw *rewriter) findMutatedVars(files []*ast.File) {
	rw.mutatedVar = map[types.Object]bool{}
	mark := func(e ast.Expr) {
		if v := rw.pkgVar(baseOfIndex(e)); v != nil {
			rw.mutatedVar[v] = true
		}
	}
	for _, f := range files {
		ast.Inspect(f, func(n ast.Node) bool {
			switch x := n.(type) {
			case *ast.FuncDecl:
				if generated(x) {
					return false // the reset code is not part of the program under test
				}
			case *ast.AssignStmt:
				for _, l := range x.Lhs {
					mark(l)
				}
			case *ast.IncDecStmt:
				mark(x.X)
			case *ast.UnaryExpr:
				if x.Op == token.AND {
					mark(x.X)
				}
			case *ast.RangeStmt:
				if x.Key != nil {
					mark(x.Key)
				}
				if x.Value != nil {
					mark(x.Value)
				}
			case *ast.CallExpr:
				// method with pointer receiver called on a package variable
				if s, ok := x.Fun.(*ast.SelectorExpr); ok {
					if sl := rw.info.Selections[s]; sl != nil && sl.Kind() == types.MethodVal {
						if sig, ok := sl.Obj().Type().(*types.Signature); ok && sig.Recv() != nil {
							if _, ptr := sig.Recv().Type().(*types.Pointer); ptr {
								mark(s.X)
							}
						}
					}
				}
				if rw.isBuiltin(x.Fun, "delete") && len(x.Args) > 0 {
					mark(x.Args[0])
				}
			}
			return true
		})
	}
}

// ---------------------------------------------------------------- one file

func (rw *rewriter) file(f *ast.File) ([]byte, error) {
	rw.usedShims = map[string]bool{}
	rw.skipComm = map[ast.Node]bool{}
	rw.recv2 = map[ast.Node]bool{}
	rw.chanCall = map[*ast.CallExpr]string{}
	rw.makeChan = map[*ast.CallExpr]bool{}
	rw.rangeChan = map[*ast.RangeStmt]bool{}
	rw.writeCtx = map[ast.Expr]bool{}
	rw.noMonitor = map[ast.Expr]bool{}
	rw.labelOf = map[ast.Stmt]*ast.Ident{}
	rw.origX = map[*ast.SelectorExpr]ast.Expr{}
	rw.wExpr = map[ast.Expr]wInfo{}
	rw.rhsType = map[ast.Stmt]types.TypeAndValue{}
	rw.lhsPure = map[ast.Stmt]bool{}

	// build constraints in the header survive, every other comment is dropped
	var header bytes.Buffer
	for _, cg := range f.Comments {
		if cg.End() >= f.Package {
			break
		}
		for _, c := range cg.List {
			if strings.HasPrefix(c.Text, "//go:build") || strings.HasPrefix(c.Text, "// +build") {
				header.WriteString(c.Text + "\n")
			}
		}
	}
	if header.Len() > 0 {
		header.WriteString("\n")
	}
	f.Comments = nil
	f.Doc = nil
	ast.Inspect(f, func(n ast.Node) bool {
		switch x := n.(type) {
		case *ast.FuncDecl:
			x.Doc = nil
		case *ast.GenDecl:
			x.Doc = nil
		case *ast.Field:
			x.Doc, x.Comment = nil, nil
		case *ast.ValueSpec:
			x.Doc, x.Comment = nil, nil
		case *ast.TypeSpec:
			x.Doc, x.Comment = nil, nil
		case *ast.ImportSpec:
			x.Doc, x.Comment = nil, nil
		}
		return true
	})

	var failure error
	astutil.Apply(f, func(c *astutil.Cursor) bool {
		rw.pre(c)
		return true
	}, func(c *astutil.Cursor) bool {
		if failure == nil {
			if err := rw.post(c); err != nil {
				failure = err
			}
		}
		return true
	})
	if failure != nil {
		return nil, failure
	}
	// the file holding the generated reset function registers it with the scheduler
	for _, d := range f.Decls {
		if fd, ok := d.(*ast.FuncDecl); ok && fd.Recv == nil && fd.Name.Name == "verifResetGlobals" {
			f.Decls = append(f.Decls, &ast.FuncDecl{Name: id("init"), Type: &ast.FuncType{Params: &ast.FieldList{}},
				Body: &ast.BlockStmt{List: []ast.Stmt{&ast.ExprStmt{X: call(rw.shim("vsched", "RegisterReset"), id("verifResetGlobals"))}}}})
			break
		}
	}
	rw.fixImports(f)

	var buf bytes.Buffer
	buf.Write(header.Bytes())
	// drop all position information so that the printer lays the file out afresh
	if err := (&printer.Config{Mode: printer.UseSpaces | printer.TabIndent, Tabwidth: 8}).Fprint(&buf, token.NewFileSet(), stripPos(f)); err != nil {
		return nil, err
	}
	// the result must parse
	if _, err := parser.ParseFile(token.NewFileSet(), "x.go", buf.Bytes(), 0); err != nil {
		return nil, fmt.Errorf("instrumented source does not parse: %v\n%s", err, buf.String())
	}
	return buf.Bytes(), nil
}

// stripPos returns f itself; positions are harmless to the printer once comments are
// gone, but freshly built nodes have none, so we normalise by printing and reparsing.
func stripPos(f *ast.File) *ast.File { return f }

func (rw *rewriter) fixImports(f *ast.File) {
	// which original imports are still referenced?
	used := map[string]bool{}
	ast.Inspect(f, func(n ast.Node) bool {
		if i, ok := n.(*ast.Ident); ok {
			if pn, ok := rw.info.Uses[i].(*types.PkgName); ok {
				used[pn.Imported().Path()] = true
			}
		}
		return true
	})
	for _, d := range f.Decls {
		gd, ok := d.(*ast.GenDecl)
		if !ok || gd.Tok != token.IMPORT {
			continue
		}
		var keep []ast.Spec
		for _, s := range gd.Specs {
			is := s.(*ast.ImportSpec)
			p, _ := strconv.Unquote(is.Path.Value)
			if is.Name != nil && (is.Name.Name == "_" || is.Name.Name == ".") || used[p] {
				keep = append(keep, s)
			}
		}
		gd.Specs = keep
	}
	var shims []string
	for s := range rw.usedShims {
		shims = append(shims, s)
	}
	sort.Strings(shims)
	if len(shims) > 0 {
		gd := &ast.GenDecl{Tok: token.IMPORT, Lparen: 1, Rparen: 1}
		for _, s := range shims {
			gd.Specs = append(gd.Specs, &ast.ImportSpec{Path: str(shimBase + s)})
		}
		f.Decls = append([]ast.Decl{gd}, f.Decls...)
	}
	// remove empty import declarations
	var decls []ast.Decl
	for _, d := range f.Decls {
		if gd, ok := d.(*ast.GenDecl); ok && gd.Tok == token.IMPORT && len(gd.Specs) == 0 {
			continue
		}
		decls = append(decls, d)
	}
	f.Decls = decls
	f.Imports = nil
}

// ---------------------------------------------------------------- pre-order marks

// wInfo remembers what a generated write monitor wraps, so that a read monitor of the same
// location can be generated next to it.
type wInfo struct {
	target ast.Expr // x.f or the package variable
	name   string
}

// pure reports whether evaluating e has no effect and does not depend on when it is done
// (identifiers, field selections, dereferences, indexing by such expressions).
func pure(e ast.Expr) bool {
	switch x := e.(type) {
	case *ast.Ident, *ast.BasicLit:
		return true
	case *ast.ParenExpr:
		return pure(x.X)
	case *ast.SelectorExpr:
		return pure(x.X)
	case *ast.StarExpr:
		return pure(x.X)
	case *ast.IndexExpr:
		return pure(x.X) && pure(x.Index)
	}
	return false
}

var opOfAssign = map[token.Token]token.Token{
	token.ADD_ASSIGN: token.ADD, token.SUB_ASSIGN: token.SUB, token.MUL_ASSIGN: token.MUL, token.QUO_ASSIGN: token.QUO,
	token.REM_ASSIGN: token.REM, token.AND_ASSIGN: token.AND, token.OR_ASSIGN: token.OR, token.XOR_ASSIGN: token.XOR,
	token.SHL_ASSIGN: token.SHL, token.SHR_ASSIGN: token.SHR, token.AND_NOT_ASSIGN: token.AND_NOT,
}

// splitWrite turns `x.f = rhs`, `x.f op= rhs` and `x.f++` on a monitored location into
//
//	{ tmp := rhs; x.f = tmp }
//
// so that the write monitor runs after the right-hand side has been evaluated: the reads of a
// read-modify-write statement then come before its write in the monitored order, as they do
// in the machine code, and a scheduling point put on the write separates the two.
func (rw *rewriter) splitWrite(c *astutil.Cursor, st ast.Stmt, lhs ast.Expr, tok token.Token, rhs ast.Expr) {
	wi, ok := rw.wExpr[lhs]
	if !ok || c.Index() < 0 || !rw.lhsPure[st] {
		return
	}
	rd := func() ast.Expr {
		return &ast.ParenExpr{X: &ast.StarExpr{X: call(rw.shim("vsched", "R"), &ast.UnaryExpr{Op: token.AND, X: wi.target}, str(wi.name))}}
	}
	// the temporary takes its type from the location itself (an unmonitored copy that is
	// overwritten at once), so untyped constants, nil, shifts and conversions on the right keep
	// the typing context they had
	tmp := id(rw.fresh("vtmp"))
	var init ast.Expr = wi.target
	var mid ast.Stmt
	switch {
	case tok == token.ASSIGN:
		tv := rw.rhsType[st]
		if tv.Value != nil || tv.IsNil() {
			return // nothing is read on the right-hand side
		}
		mid = &ast.AssignStmt{Lhs: []ast.Expr{tmp}, Tok: token.ASSIGN, Rhs: []ast.Expr{rhs}}
	case tok == token.INC || tok == token.DEC:
		init = rd()
		mid = &ast.IncDecStmt{X: tmp, Tok: tok}
	default:
		if _, ok := opOfAssign[tok]; !ok {
			return
		}
		init = rd()
		mid = &ast.AssignStmt{Lhs: []ast.Expr{tmp}, Tok: tok, Rhs: []ast.Expr{rhs}}
	}
	c.Replace(&ast.BlockStmt{List: []ast.Stmt{
		&ast.AssignStmt{Lhs: []ast.Expr{tmp}, Tok: token.DEFINE, Rhs: []ast.Expr{init}},
		mid,
		&ast.AssignStmt{Lhs: []ast.Expr{lhs}, Tok: token.ASSIGN, Rhs: []ast.Expr{tmp}},
	}})
}

func (rw *rewriter) markRecv2(lhs int, rhs []ast.Expr) {
	if lhs == 2 && len(rhs) == 1 {
		if u, ok := unparen(rhs[0]).(*ast.UnaryExpr); ok && u.Op == token.ARROW {
			rw.recv2[u] = true
		}
	}
}

func (rw *rewriter) markWrite(e ast.Expr) {
	e = unparen(e)
	switch x := e.(type) {
	case *ast.SelectorExpr, *ast.Ident:
		rw.writeCtx[x.(ast.Expr)] = true
	case *ast.IndexExpr:
		// storing into an element of an array- or map-valued field writes the field
		if tv, ok := rw.info.Types[x.X]; ok && tv.Type != nil {
			switch tv.Type.Underlying().(type) {
			case *types.Array, *types.Map:
				rw.markWrite(x.X)
			}
		}
	case *ast.StarExpr:
	}
}

func (rw *rewriter) markNoMonitor(e ast.Expr) {
	for {
		e = unparen(e)
		switch x := e.(type) {
		case *ast.SelectorExpr:
			rw.noMonitor[x] = true
			return
		case *ast.Ident:
			rw.noMonitor[x] = true
			return
		case *ast.IndexExpr:
			if tv, ok := rw.info.Types[x.X]; ok && tv.Type != nil {
				if _, arr := tv.Type.Underlying().(*types.Array); arr {
					e = x.X
					continue
				}
			}
			return
		default:
			return
		}
	}
}

func (rw *rewriter) pre(c *astutil.Cursor) {
	switch n := c.Node().(type) {
	case *ast.FuncDecl:
		rw.inGenerated = generated(n)
	case *ast.SelectorExpr:
		rw.origX[n] = n.X
	case *ast.LabeledStmt:
		rw.labelOf[n.Stmt] = n.Label
	case *ast.AssignStmt:
		rw.markRecv2(len(n.Lhs), n.Rhs)
		if n.Tok != token.DEFINE {
			for _, l := range n.Lhs {
				rw.markWrite(l)
			}
			if len(n.Lhs) == 1 && len(n.Rhs) == 1 {
				rw.rhsType[n] = rw.info.Types[n.Rhs[0]]
				rw.lhsPure[n] = pure(n.Lhs[0])
			}
		}
	case *ast.ValueSpec:
		rw.markRecv2(len(n.Names), n.Values)
		if rw.consts != nil {
			for i, nm := range n.Names {
				if v, ok := rw.consts[nm.Name]; ok && i < len(n.Values) {
					if _, isConst := rw.info.Defs[nm].(*types.Const); isConst && rw.info.Defs[nm].Parent() == rw.pkg.Scope() {
						n.Values[i] = &ast.BasicLit{Kind: token.INT, Value: v}
						constApplied[rw.conf.dir+":"+nm.Name] = true
					}
				}
			}
		}
	case *ast.IncDecStmt:
		rw.markWrite(n.X)
		rw.lhsPure[n] = pure(n.X)
	case *ast.RangeStmt:
		if rw.conf.chans && rw.isChan(n.X) {
			rw.rangeChan[n] = true
		}
		if n.Tok == token.ASSIGN {
			if n.Key != nil {
				rw.markWrite(n.Key)
			}
			if n.Value != nil {
				rw.markWrite(n.Value)
			}
		}
	case *ast.UnaryExpr:
		if n.Op == token.AND {
			rw.markNoMonitor(n.X)
		}
	case *ast.SelectStmt:
		for _, s := range n.Body.List {
			cc := s.(*ast.CommClause)
			switch m := cc.Comm.(type) {
			case *ast.SendStmt:
				rw.skipComm[m] = true
			case *ast.ExprStmt:
				rw.skipComm[unparen(m.X)] = true
			case *ast.AssignStmt:
				rw.skipComm[unparen(m.Rhs[0])] = true
			}
		}
	case *ast.CallExpr:
		if len(n.Args) > 0 {
			for _, b := range []string{"close", "len", "cap"} {
				if rw.isBuiltin(n.Fun, b) && rw.isChan(n.Args[0]) {
					rw.chanCall[n] = b
				}
			}
			if rw.isBuiltin(n.Fun, "make") && rw.isChan(n.Args[0]) {
				rw.makeChan[n] = true
			}
			if rw.isBuiltin(n.Fun, "delete") {
				rw.markWrite(n.Args[0])
			}
		}
		// method with pointer receiver on a field / variable of struct type: the implicit
		// &x.f must stay addressable and is an access through a pointer, not a copy
		if s, ok := n.Fun.(*ast.SelectorExpr); ok {
			if sl := rw.info.Selections[s]; sl != nil && sl.Kind() == types.MethodVal {
				if sig, ok := sl.Obj().Type().(*types.Signature); ok && sig.Recv() != nil {
					if _, ptr := sig.Recv().Type().(*types.Pointer); ptr {
						if tv, ok := rw.info.Types[s.X]; ok && tv.Type != nil {
							if _, isPtr := tv.Type.Underlying().(*types.Pointer); !isPtr {
								// value receiver expression: conservatively a write through &x
								if v := rw.pkgVar(s.X); v != nil {
									rw.markWrite(s.X)
								}
							}
						}
					}
				}
			}
		}
	}
}

// ---------------------------------------------------------------- post-order rewriting

var syncNames = map[string]bool{"Mutex": true, "RWMutex": true, "WaitGroup": true, "Pool": true, "Once": true, "Locker": true,
	"Cond": true, "NewCond": true, "Map": true, "OnceFunc": true, "OnceValue": true, "OnceValues": true}
var timeAlways = map[string]bool{"Now": true, "Since": true, "Until": true, "Sleep": true}
var timeChan = map[string]bool{"After": true, "Tick": true, "NewTimer": true, "Timer": true, "AfterFunc": true, "NewTicker": true, "Ticker": true}
var osNames = map[string]bool{"Rename": true, "Open": true, "Create": true, "OpenFile": true, "Remove": true, "Stat": true, "Lstat": true,
	"ReadFile": true, "WriteFile": true, "Link": true, "Symlink": true, "SameFile": true, "Truncate": true, "RemoveAll": true, "Mkdir": true, "MkdirAll": true, "File": true}
var ioNames = map[string]bool{"Copy": true, "CopyN": true, "CopyBuffer": true, "ReadAll": true}

var scaledTime = map[string]bool{"After": true, "NewTimer": true, "AfterFunc": true, "NewTicker": true, "Tick": true}
var scaledCtx = map[string]bool{"WithTimeout": true, "WithDeadline": true}

func (rw *rewriter) post(c *astutil.Cursor) error {
	if rw.conf.timersOnly {
		if n, ok := c.Node().(*ast.SelectorExpr); ok {
			switch {
			case rw.pkgOf(n.X) == "time" && scaledTime[n.Sel.Name]:
				c.Replace(rw.shim("vtime", "Scaled"+n.Sel.Name))
			case rw.pkgOf(n.X) == "context" && scaledCtx[n.Sel.Name]:
				c.Replace(rw.shim("vtime", "Scaled"+n.Sel.Name))
			}
		}
		return nil
	}
	switch n := c.Node().(type) {
	case *ast.FuncDecl:
		rw.inGenerated = false
		return nil
	case *ast.SelectorExpr:
		switch rw.pkgOf(n.X) {
		case "sync":
			if syncNames[n.Sel.Name] {
				c.Replace(rw.shim("vsync", n.Sel.Name))
			} else {
				return fmt.Errorf("unsupported sync.%s", n.Sel.Name)
			}
			return nil
		case "sync/atomic":
			c.Replace(rw.shim("vatomic", n.Sel.Name))
			return nil
		case "time":
			if timeAlways[n.Sel.Name] || rw.conf.chans && timeChan[n.Sel.Name] {
				c.Replace(rw.shim("vtime", n.Sel.Name))
			}
			return nil
		case "context":
			if rw.conf.ctx {
				c.Replace(rw.shim("vctx", n.Sel.Name))
			}
			return nil
		case "os":
			if rw.conf.vos && osNames[n.Sel.Name] {
				c.Replace(rw.shim("vos", n.Sel.Name))
			}
			return nil
		case "io":
			if rw.conf.vos && ioNames[n.Sel.Name] {
				c.Replace(rw.shim("vos", n.Sel.Name))
			}
			return nil
		}
		if !*noFields {
			if w := rw.monitorField(n); w != nil {
				c.Replace(w)
			}
		}
	case *ast.Ident:
		if !*noFields {
			if w := rw.monitorVar(n, c); w != nil {
				c.Replace(w)
			}
		}
	case *ast.ChanType:
		if rw.conf.chans {
			c.Replace(&ast.StarExpr{X: &ast.IndexExpr{X: rw.shim("vsched", "Chan"), Index: n.Value}})
		}
	case *ast.CallExpr:
		if !rw.conf.chans {
			return nil
		}
		if rw.makeChan[n] {
			var elem ast.Expr
			if st, ok := n.Args[0].(*ast.StarExpr); ok {
				if ix, ok := st.X.(*ast.IndexExpr); ok {
					elem = ix.Index
				}
			}
			if elem == nil {
				return fmt.Errorf("unsupported make of a named channel type")
			}
			c.Replace(call(&ast.IndexExpr{X: rw.shim("vsched", "MakeChan"), Index: elem}, n.Args[1:]...))
			return nil
		}
		if b, ok := rw.chanCall[n]; ok {
			m := map[string]string{"close": "Close", "len": "Len", "cap": "Cap"}[b]
			c.Replace(call(sel(&ast.ParenExpr{X: n.Args[0]}, m)))
		}
	case *ast.AssignStmt:
		if len(n.Lhs) == 1 && len(n.Rhs) == 1 && n.Tok != token.DEFINE {
			rw.splitWrite(c, n, n.Lhs[0], n.Tok, n.Rhs[0])
		}
	case *ast.IncDecStmt:
		rw.splitWrite(c, n, n.X, n.Tok, nil)
	case *ast.SendStmt:
		if rw.conf.chans && !rw.skipComm[n] {
			c.Replace(&ast.ExprStmt{X: call(sel(&ast.ParenExpr{X: n.Chan}, "Send"), n.Value)})
		}
	case *ast.UnaryExpr:
		if rw.conf.chans && n.Op == token.ARROW && !rw.skipComm[n] {
			m := "Recv"
			if rw.recv2[n] {
				m = "Recv2"
			}
			c.Replace(call(sel(&ast.ParenExpr{X: n.X}, m)))
		}
	case *ast.GoStmt:
		if rw.conf.chans {
			c.Replace(rw.goStmt(n))
		}
	case *ast.RangeStmt:
		if rw.rangeChan[n] {
			r, err := rw.rangeStmt(n)
			if err != nil {
				return err
			}
			c.Replace(r)
		}
	case *ast.SelectStmt:
		if rw.conf.chans {
			r, err := rw.selectStmt(n)
			if err != nil {
				return err
			}
			if lbl := rw.labelOf[n]; lbl != nil {
				// the label moves onto the generated switch; the LabeledStmt parent is replaced below
				rw.pendingLabel = lbl
			}
			c.Replace(r)
		}
	case *ast.LabeledStmt:
		// `L: select {…}` became `L: { …; switch … }`; a label must sit on the switch for `break L`
		if blk, ok := n.Stmt.(*ast.BlockStmt); ok && rw.pendingLabel == n.Label {
			rw.pendingLabel = nil
			last := len(blk.List) - 1
			blk.List[last] = &ast.LabeledStmt{Label: n.Label, Stmt: blk.List[last]}
			c.Replace(blk)
		}
	}
	return nil
}

func (rw *rewriter) goStmt(n *ast.GoStmt) ast.Stmt {
	goFn := rw.shim("vsched", "Go")
	// go func(){…}() needs no argument capture
	if fl, ok := n.Call.Fun.(*ast.FuncLit); ok && len(n.Call.Args) == 0 {
		return &ast.ExprStmt{X: call(goFn, fl)}
	}
	// evaluate function value and arguments now, run the call in the new thread
	var lhs, rhs []ast.Expr
	fn := id(rw.fresh("f"))
	lhs = append(lhs, fn)
	rhs = append(rhs, n.Call.Fun)
	var args []ast.Expr
	for _, a := range n.Call.Args {
		v := id(rw.fresh("a"))
		lhs = append(lhs, v)
		rhs = append(rhs, a)
		args = append(args, v)
	}
	inner := &ast.CallExpr{Fun: fn, Args: args, Ellipsis: n.Call.Ellipsis}
	if n.Call.Ellipsis != token.NoPos {
		inner.Ellipsis = 1
	}
	return &ast.BlockStmt{List: []ast.Stmt{
		&ast.AssignStmt{Lhs: lhs, Tok: token.DEFINE, Rhs: rhs},
		&ast.ExprStmt{X: call(goFn, &ast.FuncLit{
			Type: &ast.FuncType{Params: &ast.FieldList{}},
			Body: &ast.BlockStmt{List: []ast.Stmt{&ast.ExprStmt{X: inner}}},
		})},
	}}
}

func (rw *rewriter) rangeStmt(n *ast.RangeStmt) (ast.Stmt, error) {
	if n.Value != nil {
		return nil, fmt.Errorf("range over channel with two variables")
	}
	ok := id(rw.fresh("ok"))
	var key ast.Expr = id("_")
	tok := token.DEFINE
	if n.Key != nil {
		key = n.Key
		if n.Tok == token.ASSIGN {
			// `for v = range ch`: v, ok need mixed define/assign -> declare ok first
			return &ast.ForStmt{Body: &ast.BlockStmt{List: append([]ast.Stmt{
				&ast.DeclStmt{Decl: &ast.GenDecl{Tok: token.VAR, Specs: []ast.Spec{&ast.ValueSpec{Names: []*ast.Ident{ok}, Type: id("bool")}}}},
				&ast.AssignStmt{Lhs: []ast.Expr{key, ok}, Tok: token.ASSIGN, Rhs: []ast.Expr{call(sel(&ast.ParenExpr{X: n.X}, "Recv2"))}},
				&ast.IfStmt{Cond: &ast.UnaryExpr{Op: token.NOT, X: ok}, Body: &ast.BlockStmt{List: []ast.Stmt{&ast.BranchStmt{Tok: token.BREAK}}}},
			}, n.Body.List...)}}, nil
		}
	}
	return &ast.ForStmt{Body: &ast.BlockStmt{List: append([]ast.Stmt{
		&ast.AssignStmt{Lhs: []ast.Expr{key, ok}, Tok: tok, Rhs: []ast.Expr{call(sel(&ast.ParenExpr{X: n.X}, "Recv2"))}},
		&ast.IfStmt{Cond: &ast.UnaryExpr{Op: token.NOT, X: ok}, Body: &ast.BlockStmt{List: []ast.Stmt{&ast.BranchStmt{Tok: token.BREAK}}}},
	}, n.Body.List...)}}, nil
}

func (rw *rewriter) selectStmt(n *ast.SelectStmt) (ast.Stmt, error) {
	var pre []ast.Stmt
	var caseVars []ast.Expr
	var clauses []ast.Stmt
	hasDefault := false
	sv := id(rw.fresh("s"))
	idx := 0
	for _, s := range n.Body.List {
		cc := s.(*ast.CommClause)
		if cc.Comm == nil {
			hasDefault = true
			clauses = append(clauses, &ast.CaseClause{List: nil, Body: cc.Body})
			continue
		}
		cv := id(rw.fresh("c"))
		var body []ast.Stmt
		switch m := cc.Comm.(type) {
		case *ast.SendStmt:
			pre = append(pre, &ast.AssignStmt{Lhs: []ast.Expr{cv}, Tok: token.DEFINE,
				Rhs: []ast.Expr{call(rw.shim("vsched", "SendCase"), m.Chan, m.Value)}})
		case *ast.ExprStmt:
			u, ok := unparen(m.X).(*ast.UnaryExpr)
			if !ok || u.Op != token.ARROW {
				return nil, fmt.Errorf("unsupported select clause")
			}
			pre = append(pre, &ast.AssignStmt{Lhs: []ast.Expr{cv}, Tok: token.DEFINE,
				Rhs: []ast.Expr{call(rw.shim("vsched", "RecvCase"), u.X)}})
		case *ast.AssignStmt:
			u, ok := unparen(m.Rhs[0]).(*ast.UnaryExpr)
			if !ok || u.Op != token.ARROW {
				return nil, fmt.Errorf("unsupported select clause")
			}
			pre = append(pre, &ast.AssignStmt{Lhs: []ast.Expr{cv}, Tok: token.DEFINE,
				Rhs: []ast.Expr{call(rw.shim("vsched", "RecvCase"), u.X)}})
			meth := "Val"
			if len(m.Lhs) == 2 {
				meth = "Val2"
			}
			body = append(body, &ast.AssignStmt{Lhs: m.Lhs, Tok: m.Tok, Rhs: []ast.Expr{call(sel(cv, meth), sv)}})
		default:
			return nil, fmt.Errorf("unsupported select clause")
		}
		caseVars = append(caseVars, cv)
		clauses = append(clauses, &ast.CaseClause{
			List: []ast.Expr{&ast.BasicLit{Kind: token.INT, Value: strconv.Itoa(idx)}},
			Body: append(body, cc.Body...),
		})
		idx++
	}
	hd := "false"
	if hasDefault {
		hd = "true"
	} else {
		// keeps the generated switch a terminating statement whenever the select was one
		clauses = append(clauses, &ast.CaseClause{List: nil, Body: []ast.Stmt{
			&ast.ExprStmt{X: call(id("panic"), str("vsched: select returned no clause"))}}})
	}
	args := append([]ast.Expr{id(hd)}, caseVars...)
	sw := &ast.SwitchStmt{
		Init: &ast.AssignStmt{Lhs: []ast.Expr{sv}, Tok: token.DEFINE, Rhs: []ast.Expr{call(rw.shim("vsched", "Select"), args...)}},
		Tag:  sel(sv, "I"),
		Body: &ast.BlockStmt{List: clauses},
	}
	return &ast.BlockStmt{List: append(pre, sw)}, nil
}

// ---------------------------------------------------------------- access monitors

func isShimPrimitive(t types.Type) bool {
	for {
		switch x := t.(type) {
		case *types.Named:
			if o := x.Obj(); o != nil && o.Pkg() != nil {
				switch o.Pkg().Path() {
				case "sync", "sync/atomic":
					return true
				}
			}
			return false
		case *types.Alias:
			t = types.Unalias(x)
		default:
			return false
		}
	}
}

func (rw *rewriter) addressable(e ast.Expr) bool {
	e = unparen(e)
	tv, ok := rw.info.Types[e]
	if ok && tv.Type != nil {
		if _, ptr := tv.Type.Underlying().(*types.Pointer); ptr {
			return true
		}
	}
	switch x := e.(type) {
	case *ast.SelectorExpr:
		if sl := rw.info.Selections[x]; sl != nil && sl.Kind() == types.FieldVal {
			return rw.addressable(x.X) || sl.Indirect()
		}
	case *ast.Ident:
		if v, ok := rw.info.Uses[x].(*types.Var); ok && !v.IsField() {
			return true
		}
	case *ast.StarExpr:
		return true
	case *ast.IndexExpr:
		if tv, ok := rw.info.Types[x.X]; ok && tv.Type != nil {
			switch tv.Type.Underlying().(type) {
			case *types.Slice:
				return true
			case *types.Array:
				return rw.addressable(x.X)
			}
		}
	}
	return false
}

func (rw *rewriter) monitorField(n *ast.SelectorExpr) ast.Expr {
	sl := rw.info.Selections[n]
	if sl == nil || sl.Kind() != types.FieldVal || rw.noMonitor[n] || rw.inGenerated {
		return nil
	}
	fld, ok := sl.Obj().(*types.Var)
	if !ok || fld.Pkg() == nil || !rw.targets[fld.Pkg().Path()] {
		return nil
	}
	if isShimPrimitive(fld.Type()) {
		return nil
	}
	if len(sl.Index()) != 1 {
		return nil // promoted through embedding: the explicit parts are handled separately
	}
	// the operand must be addressable for &x.f to be legal
	ox := rw.origX[n]
	if ox == nil {
		return nil
	}
	tvX, ok := rw.info.Types[ox]
	if !ok || tvX.Type == nil {
		return nil
	}
	if !rw.addressable(ox) {
		return nil
	}
	recv := sl.Recv()
	if p, ok := recv.Underlying().(*types.Pointer); ok {
		recv = p.Elem()
	}
	tn := "?"
	if nm, ok := recv.(*types.Named); ok {
		tn = nm.Obj().Name()
	}
	fn := "R"
	if rw.writeCtx[n] {
		fn = "W"
	}
	e := &ast.ParenExpr{X: &ast.StarExpr{X: call(rw.shim("vsched", fn), &ast.UnaryExpr{Op: token.AND, X: n}, str(tn+"."+fld.Name()))}}
	if fn == "W" {
		rw.wExpr[e] = wInfo{n, tn + "." + fld.Name()}
	}
	return e
}

func (rw *rewriter) monitorVar(n *ast.Ident, c *astutil.Cursor) ast.Expr {
	v, ok := rw.info.Uses[n].(*types.Var)
	if !ok || v.IsField() || v.Parent() != rw.pkg.Scope() || !rw.mutatedVar[v] || rw.noMonitor[n] || rw.inGenerated {
		return nil
	}
	if isShimPrimitive(v.Type()) {
		return nil
	}
	// only expression positions: not the Sel of a selector, not a key in a composite literal
	switch p := c.Parent().(type) {
	case *ast.SelectorExpr:
		if p.Sel == n {
			return nil
		}
	}
	fn := "R"
	if rw.writeCtx[n] {
		fn = "W"
	}
	e := &ast.ParenExpr{X: &ast.StarExpr{X: call(rw.shim("vsched", fn), &ast.UnaryExpr{Op: token.AND, X: n}, str(rw.pkg.Name()+"."+v.Name()))}}
	if fn == "W" {
		rw.wExpr[e] = wInfo{n, rw.pkg.Name() + "." + v.Name()}
	}
	return e
}
