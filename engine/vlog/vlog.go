// Package vlog generates attribute trees and derivation chains for the logger checks and
// computes, independently of the handlers, what a record must decode to.
package vlog

import (
	"encoding/json"
	"errors"
	"fmt"
	"log/slog"
	"math"
	"strconv"
	"strings"
	"time"

	"github.com/whoisnian/glb/logger"
	"verif/engine/voracle"
)

// ---------------------------------------------------------------- leaves

type Leaf struct {
	Name string
	Val  func() any                  // value handed to slog.Any
	JSON func(v voracle.JVal) string // "" if v is an acceptable rendering
	Text func() (string, bool)       // expected decoded text; ok=false: only "is one token" is required
}

// The statement of C13 says the tokens give back each attribute's value; for a string, an
// error, a TextMarshaler, an integer or a bool that is a definite text. How a float, a
// duration, a time, nil or a composite value is spelled is the handler's business: those are
// compared by what they denote (textNum, textDur, textTime) or only required to be one token.
type textIs func(got string) bool

var textMatchers = map[string]textIs{}

func textNum(name string, f float64) func() (string, bool) {
	textMatchers[name] = func(got string) bool {
		g, err := strconv.ParseFloat(got, 64)
		return err == nil && (g == f || (math.IsNaN(f) && math.IsNaN(g)))
	}
	return func() (string, bool) { return strconv.FormatFloat(f, 'g', -1, 64), true }
}

func textDur(name string, d time.Duration) func() (string, bool) {
	textMatchers[name] = func(got string) bool {
		if g, err := time.ParseDuration(got); err == nil {
			return g == d
		}
		g, err := strconv.ParseFloat(got, 64)
		return err == nil && g == float64(d)
	}
	return func() (string, bool) { return d.String(), true }
}

func textTime(name string, t time.Time) func() (string, bool) {
	textMatchers[name] = func(got string) bool {
		g, err := time.Parse(time.RFC3339Nano, got)
		return err == nil && !g.After(t) && t.Sub(g) < time.Second
	}
	return func() (string, bool) { return t.Format(time.RFC3339Nano), true }
}

func textOpen() (string, bool) { return "", false }

// TextMatches reports whether got is an acceptable spelling of the leaf's value.
func (l *Leaf) TextMatches(got string) (want string, ok bool) {
	want, exact := l.Text()
	if !exact {
		return "", true
	}
	if m := textMatchers[l.Name]; m != nil {
		return want + " (or another spelling of the same value)", m(got)
	}
	return want, got == want
}

// Sanitize is what any string must decode to: invalid UTF-8 bytes become U+FFFD.
func Sanitize(s string) string { return string([]rune(s)) }

func wantStr(s string) func(voracle.JVal) string {
	return func(v voracle.JVal) string {
		if v.Kind != 's' || v.Str != Sanitize(s) {
			return fmt.Sprintf("got %s, want the string %q", v, Sanitize(s))
		}
		return ""
	}
}

func wantNum(n string) func(voracle.JVal) string {
	return func(v voracle.JVal) string {
		if v.Kind != 'n' || !voracle.NumEqual(v.Num, json.Number(n)) {
			return fmt.Sprintf("got %s, want the number %s", v, n)
		}
		return ""
	}
}

func wantErrString(v voracle.JVal) string {
	if v.Kind != 's' || v.Str == "" {
		return fmt.Sprintf("got %s, want a non-empty error string", v)
	}
	return ""
}

// wantMarshal: the reference for composite values is encoding/json itself.
func wantMarshal(x any) func(voracle.JVal) string {
	return func(v voracle.JVal) string {
		data, err := json.Marshal(x)
		if err != nil {
			return wantErrString(v)
		}
		w, err := voracle.ParseJSONLine(data)
		if err != nil {
			return wantErrString(v)
		}
		if !v.Equal(w) {
			return fmt.Sprintf("got %s, want %s", v, w)
		}
		return ""
	}
}

func text(s string) func() (string, bool) { return func() (string, bool) { return s, true } }

type okMarshaler struct{}

func (okMarshaler) MarshalJSON() ([]byte, error) { return []byte(`{"m":[1,2],"s":"x y"}`), nil }

type errMarshaler struct{}

func (errMarshaler) MarshalJSON() ([]byte, error) {
	return nil, errors.New("marshal \"failed\"\n badly")
}

type garbageMarshaler struct{}

func (garbageMarshaler) MarshalJSON() ([]byte, error) { return []byte("{\"x\":\n"), nil }

// indentedMarshaler succeeds with valid but pretty-printed JSON: the line breaks must not
// reach the log line
type indentedMarshaler struct{}

func (indentedMarshaler) MarshalJSON() ([]byte, error) {
	return []byte("{\n  \"a\": 1,\n  \"b\": [\n    true\n  ]\n}"), nil
}

type okText struct{}

func (okText) MarshalText() ([]byte, error) { return []byte("text=\"v\" x"), nil }

type errText struct{}

func (errText) MarshalText() ([]byte, error) { return nil, errors.New("text failed k=v") }

// valErr / valText have value receivers: called through a nil pointer the method call itself
// panics (a typed nil pointer in an interface, the usual shape of a "nil error that is not nil")
type valErr struct{ msg string }

func (e valErr) Error() string { return e.msg }

type valText struct{ t string }

func (v valText) MarshalText() ([]byte, error) { return []byte(v.t), nil }

// nastyErr: a failing json.Marshaler whose error text needs JSON escaping, not Go escaping
type nastyErr struct{}

func (nastyErr) MarshalJSON() ([]byte, error) {
	return nil, errors.New("bad \x00\a\v\x7f\xff \U000e0001 \"q\" input")
}

func wantStringOrNull(v voracle.JVal) string {
	if v.Kind != 's' && v.Kind != 'z' {
		return fmt.Sprintf("got %s, want a string or null", v)
	}
	return ""
}

type lvLeaf struct{ v any }

func (l lvLeaf) LogValue() slog.Value { return slog.AnyValue(l.v) }

type pair struct {
	A int
	B string
}

var FixedTime = time.Date(2001, 2, 3, 4, 5, 6, 789000000, time.UTC)

const nasty = "a\"b\\c\n\t é\xff=\x00 z"

// Leaves is the full list of value kinds.
var Leaves = []*Leaf{
	{"str", func() any { return "hello" }, wantStr("hello"), text("hello")},
	{"str-nasty", func() any { return nasty }, wantStr(nasty), text(nasty)},
	{"str-empty", func() any { return "" }, wantStr(""), text("")},
	{"int64-min", func() any { return int64(math.MinInt64) }, wantNum("-9223372036854775808"), text("-9223372036854775808")},
	{"int64-max", func() any { return int64(math.MaxInt64) }, wantNum("9223372036854775807"), text("9223372036854775807")},
	{"uint64-max", func() any { return uint64(math.MaxUint64) }, wantNum("18446744073709551615"), text("18446744073709551615")},
	{"float-1.5", func() any { return 1.5 }, wantNum("1.5"), textNum("float-1.5", 1.5)},
	{"float-0", func() any { return 0.0 }, wantNum("0"), textNum("float-0", 0)},
	{"float-neg0", func() any { return math.Copysign(0, -1) }, func(v voracle.JVal) string {
		if v.Kind != 'n' {
			return "want a number"
		}
		f, err := v.Num.Float64()
		if err != nil || f != 0 {
			return fmt.Sprintf("got %s, want zero", v)
		}
		return ""
	}, textNum("float-neg0", 0)},
	{"float-nan", func() any { return math.NaN() }, wantErrString, textNum("float-nan", math.NaN())},
	{"float-inf", func() any { return math.Inf(1) }, wantErrString, textNum("float-inf", math.Inf(1))},
	{"float-neginf", func() any { return math.Inf(-1) }, wantErrString, textNum("float-neginf", math.Inf(-1))},
	{"float-big", func() any { return 1e308 }, wantNum("1e308"), textNum("float-big", 1e308)},
	{"bool", func() any { return true }, func(v voracle.JVal) string {
		if v.Kind != 'b' || !v.Bool {
			return fmt.Sprintf("got %s, want true", v)
		}
		return ""
	}, text("true")},
	{"duration", func() any { return 1500 * time.Millisecond }, wantNum("1500000000"), textDur("duration", 1500*time.Millisecond)},
	{"time", func() any { return FixedTime }, func(v voracle.JVal) string {
		if v.Kind != 's' {
			return "want a string"
		}
		t, err := time.Parse(time.RFC3339Nano, v.Str)
		if err != nil || !t.Equal(FixedTime) {
			return fmt.Sprintf("got %s, want the time %v", v, FixedTime)
		}
		return ""
	}, textTime("time", FixedTime)},
	{"error", func() any { return errors.New("bad \"thing\"\nhappened") }, wantStr("bad \"thing\"\nhappened"), text("bad \"thing\"\nhappened")},
	{"bytes", func() any { return []byte("hi\xff there") }, wantMarshal([]byte("hi\xff there")), text("hi\xff there")},
	{"map", func() any { return map[string]int{"b": 2, "a": 1} }, wantMarshal(map[string]int{"b": 2, "a": 1}), textOpen},
	{"struct", func() any { return pair{7, "x<y>&\"z\""} }, wantMarshal(pair{7, "x<y>&\"z\""}), textOpen},
	{"marshaler-ok", func() any { return okMarshaler{} }, wantMarshal(okMarshaler{}), textOpen},
	{"marshaler-indented", func() any { return indentedMarshaler{} }, wantMarshal(indentedMarshaler{}), textOpen},
	{"rawmessage-multiline", func() any { return json.RawMessage("[1,\n 2]") }, wantMarshal(json.RawMessage("[1,\n 2]")), textOpen},
	{"marshaler-err", func() any { return errMarshaler{} }, wantErrString, textOpen},
	{"marshaler-garbage", func() any { return garbageMarshaler{} }, wantErrString, textOpen},
	{"rawmessage", func() any { return json.RawMessage(`{"r": [1, {"k":"v"}]}`) }, wantMarshal(json.RawMessage(`{"r": [1, {"k":"v"}]}`)), textOpen},
	{"textmarshaler-ok", func() any { return okText{} }, wantMarshal(okText{}), text("text=\"v\" x")},
	{"textmarshaler-err", func() any { return errText{} }, wantErrString, textOpen},
	{"ansi", func() any { return logger.AnsiString{Prefix: "\x1b[31m", Value: "red \"x\""} }, wantStr("red \"x\""), text("red \"x\"")},
	{"nil", func() any { return nil }, func(v voracle.JVal) string {
		if v.Kind != 'z' {
			return fmt.Sprintf("got %s, want null", v)
		}
		return ""
	}, textOpen},
	{"nil-ptr", func() any { return (*pair)(nil) }, func(v voracle.JVal) string {
		if v.Kind != 'z' {
			return fmt.Sprintf("got %s, want null", v)
		}
		return ""
	}, textOpen},
	{"typed-nil-error-value-receiver", func() any { return (*valErr)(nil) }, wantStringOrNull, textOpen},
	{"typed-nil-textmarshaler-value-receiver", func() any { return (*valText)(nil) }, wantStringOrNull, textOpen},
	{"marshaler-err-nasty-text", func() any { return nastyErr{} }, wantErrString, textOpen},
	{"lv-str", func() any { return lvLeaf{"deferred"} }, wantStr("deferred"), text("deferred")},
	{"lv-int", func() any { return lvLeaf{int64(-5)} }, wantNum("-5"), text("-5")},
	{"lv-lv-nan", func() any { return lvLeaf{lvLeaf{math.NaN()}} }, wantErrString, textNum("lv-lv-nan", math.NaN())},
	{"lv-err", func() any { return lvLeaf{errors.New("deferred err")} }, wantStr("deferred err"), text("deferred err")},
}

func LeafByName(n string) *Leaf {
	for _, l := range Leaves {
		if l.Name == n {
			return l
		}
	}
	panic("no leaf " + n)
}

// StrLeaf builds a string leaf for an arbitrary string.
func StrLeaf(s string) *Leaf {
	return &Leaf{"str", func() any { return s }, wantStr(s), text(s)}
}

// ---------------------------------------------------------------- attribute trees

const (
	NLeaf    = iota
	NGroup   // direct group (inline when Key == "")
	NLVGroup // LogValuer resolving to a group (inline when Key == "")
)

type Node struct {
	Kind int
	Key  string
	Leaf *Leaf
	Kids []*Node
}

type lvGroup struct{ attrs []slog.Attr }

func (g lvGroup) LogValue() slog.Value { return slog.GroupValue(g.attrs...) }

func (n *Node) Attr() slog.Attr {
	switch n.Kind {
	case NLeaf:
		return slog.Any(n.Key, n.Leaf.Val())
	case NGroup:
		return slog.Attr{Key: n.Key, Value: slog.GroupValue(Attrs(n.Kids)...)}
	}
	return slog.Any(n.Key, lvGroup{Attrs(n.Kids)})
}

func Attrs(ns []*Node) []slog.Attr {
	out := make([]slog.Attr, len(ns))
	for i, n := range ns {
		out[i] = n.Attr()
	}
	return out
}

func Args(ns []*Node) []any {
	out := make([]any, 0, len(ns))
	for _, n := range ns {
		out = append(out, n.Attr())
	}
	return out
}

func (n *Node) Size() int {
	s := 1
	for _, k := range n.Kids {
		s += k.Size()
	}
	return s
}

func (n *Node) String() string {
	switch n.Kind {
	case NLeaf:
		return fmt.Sprintf("%q:%s", n.Key, n.Leaf.Name)
	}
	var ks []string
	for _, k := range n.Kids {
		ks = append(ks, k.String())
	}
	tag := "G"
	if n.Kind == NLVGroup {
		tag = "LV"
	}
	return fmt.Sprintf("%s(%q){%s}", tag, n.Key, strings.Join(ks, ","))
}

func NodesString(ns []*Node) string {
	var s []string
	for _, n := range ns {
		s = append(s, n.String())
	}
	return "[" + strings.Join(s, " ") + "]"
}

// Trees enumerates every tree with exactly size nodes over the given leaves. Keys are
// drawn from a counter so that members are distinguishable; group kinds: keyed / inline,
// direct / LogValuer.
func Trees(size int, leaves []*Leaf) []*Node {
	if size <= 0 {
		return nil
	}
	var out []*Node
	if size == 1 {
		for _, l := range leaves {
			out = append(out, &Node{Kind: NLeaf, Key: "k", Leaf: l})
		}
	}
	for _, kind := range []int{NGroup, NLVGroup} {
		for _, key := range []string{"g", ""} {
			for _, kids := range forests(size-1, leaves) {
				out = append(out, &Node{Kind: kind, Key: key, Kids: kids})
			}
		}
	}
	return out
}

// forests enumerates every ordered list of trees with exactly total nodes (total may be 0).
func forests(total int, leaves []*Leaf) [][]*Node {
	if total == 0 {
		return [][]*Node{nil}
	}
	var out [][]*Node
	for first := 1; first <= total; first++ {
		for _, t := range Trees(first, leaves) {
			for _, rest := range forests(total-first, leaves) {
				out = append(out, append([]*Node{t}, rest...))
			}
		}
	}
	return out
}

// Forests enumerates every ordered list of trees with at most total nodes.
func Forests(total int, leaves []*Leaf) [][]*Node {
	var out [][]*Node
	for n := 0; n <= total; n++ {
		out = append(out, forests(n, leaves)...)
	}
	return out
}

// Rekey gives every node of the forests a distinct key suffix (deep copy).
func Rekey(ns []*Node, ctr *int) []*Node {
	out := make([]*Node, len(ns))
	for i, n := range ns {
		c := *n
		if c.Key != "" {
			*ctr++
			c.Key = fmt.Sprintf("%s%d", n.Key, *ctr)
		}
		c.Kids = Rekey(n.Kids, ctr)
		out[i] = &c
	}
	return out
}

// ---------------------------------------------------------------- derivation chains

type ChainOp struct {
	Group string  // non-empty: WithGroup(Group)
	Attrs []*Node // otherwise: With(Attrs...)
}

func (c ChainOp) String() string {
	if c.Group != "" {
		return fmt.Sprintf("WithGroup(%q)", c.Group)
	}
	return "With" + NodesString(c.Attrs)
}

func ChainString(ch []ChainOp) string {
	var s []string
	for _, c := range ch {
		s = append(s, c.String())
	}
	return strings.Join(s, ".")
}

func Derive(l *logger.Logger, ch []ChainOp) *logger.Logger {
	for _, c := range ch {
		if c.Group != "" {
			l = l.WithGroup(c.Group)
		} else {
			l = l.With(Args(c.Attrs)...)
		}
	}
	return l
}

// ---------------------------------------------------------------- expected structure

// Exp is what an attribute must decode to.
type Exp struct {
	Key     string
	Leaf    *Leaf
	IsGroup bool
	Kids    []Exp
}

func expand(ns []*Node) []Exp {
	var out []Exp
	for _, n := range ns {
		switch {
		case n.Kind == NLeaf:
			out = append(out, Exp{Key: n.Key, Leaf: n.Leaf})
		case n.Key == "":
			out = append(out, expand(n.Kids)...) // inline: spliced; empty: vanishes
		default:
			out = append(out, Exp{Key: n.Key, IsGroup: true, Kids: expand(n.Kids)})
		}
	}
	return out
}

// Expected builds the attribute structure of a record logged through chain with call attrs.
func Expected(chain []ChainOp, call []*Node) []Exp {
	var root []Exp
	cur := &root
	for _, c := range chain {
		if c.Group != "" {
			*cur = append(*cur, Exp{Key: c.Group, IsGroup: true})
			cur = &(*cur)[len(*cur)-1].Kids
		} else {
			*cur = append(*cur, expand(c.Attrs)...)
		}
	}
	*cur = append(*cur, expand(call)...)
	return root
}

func (e Exp) effectivelyEmpty() bool {
	if !e.IsGroup {
		return false
	}
	for _, k := range e.Kids {
		if !k.effectivelyEmpty() {
			return false
		}
	}
	return true
}

// MatchJSON checks that the members decode to exp, in order. A keyed group that ends up
// empty may be present (as an object matching its, empty, content) or absent: the statement
// does not choose.
func MatchJSON(exp []Exp, act []voracle.JMember) string {
	if len(exp) == 0 {
		if len(act) != 0 {
			return fmt.Sprintf("unexpected extra member %q", act[0].Key)
		}
		return ""
	}
	e := exp[0]
	var why string
	if len(act) > 0 && act[0].Key == Sanitize(e.Key) {
		if e.IsGroup {
			if act[0].Val.Kind != 'o' {
				why = fmt.Sprintf("member %q is %s, want an object", e.Key, act[0].Val)
			} else {
				why = MatchJSON(e.Kids, act[0].Val.Members)
				if why != "" {
					why = "in group " + strconv.Quote(e.Key) + ": " + why
				}
			}
		} else {
			why = e.Leaf.JSON(act[0].Val)
			if why != "" {
				why = fmt.Sprintf("member %q (%s): %s", e.Key, e.Leaf.Name, why)
			}
		}
		if why == "" {
			if r := MatchJSON(exp[1:], act[1:]); r == "" {
				return ""
			} else {
				why = r
			}
		}
	} else if len(act) > 0 {
		why = fmt.Sprintf("member %q found where %q was expected", act[0].Key, Sanitize(e.Key))
	} else {
		why = fmt.Sprintf("member %q missing", e.Key)
	}
	if e.effectivelyEmpty() {
		if r := MatchJSON(exp[1:], act); r == "" {
			return ""
		}
	}
	return why
}

// Flatten lists the leaves with their dotted group paths (the Text handler's view).
func Flatten(exp []Exp, prefix []string) (keys []string, leaves []*Leaf) {
	for _, e := range exp {
		if e.IsGroup {
			k, l := Flatten(e.Kids, append(append([]string{}, prefix...), e.Key))
			keys, leaves = append(keys, k...), append(leaves, l...)
			continue
		}
		keys = append(keys, strings.Join(append(append([]string{}, prefix...), e.Key), "."))
		leaves = append(leaves, e.Leaf)
	}
	return
}
