// Package vlogrun is the driver shared by the handler-format checks (C01 JSON, C13 Text):
// record generators (strings, value kinds, chain x call-site structure within a node
// budget), parallel execution against the real Logger, and evidence.
package vlogrun

import (
	"context"
	"flag"
	"fmt"
	"log/slog"
	"os"
	"reflect"
	"runtime"
	"strings"
	"sync"
	"sync/atomic"
	"time"
	"unicode/utf8"
	"unsafe"

	"github.com/whoisnian/glb/logger"
	"verif/engine/shim/vtime"
	"verif/engine/vcommon"
	"verif/engine/vlog"
	"verif/engine/vstate"
)

type sink struct{ chunks [][]byte }

func (s *sink) Write(p []byte) (int, error) {
	s.chunks = append(s.chunks, append([]byte(nil), p...))
	return len(p), nil
}

var Fake = time.Date(2023, 8, 16, 0, 35, 15, 208873091, time.FixedZone("", 8*3600))

var Levels = []slog.Level{logger.LevelDebug, logger.LevelInfo, logger.LevelWarn, logger.LevelError, logger.LevelFatal}
var LevelNames = []string{"DEBUG", "INFO", "WARN", "ERROR", "FATAL"}

type Rec struct {
	Level  int
	Source bool
	Entry  int // 0 Log(args), 1 LogAttrs, 2 Logf, 3 Log(args) from a call site whose file name needs quoting
	Msg    string
	Chain  []vlog.ChainOp
	Call   []*vlog.Node
}

func (r *Rec) String() string {
	return fmt.Sprintf("level=%s source=%v entry=%d msg=%q chain=%s call=%s", LevelNames[r.Level], r.Source, r.Entry, r.Msg, vlog.ChainString(r.Chain), vlog.NodesString(r.Call))
}

type worker struct {
	sinks   [2]*sink
	roots   [2]*logger.Logger
	derived map[string]*logger.Logger
}

func newWorker() *worker {
	w := &worker{derived: map[string]*logger.Logger{}}
	for i := 0; i < 2; i++ {
		w.sinks[i] = &sink{}
		w.roots[i] = newRoot(w.sinks[i], i == 1)
	}
	return w
}

// emit performs the logging call; each entry point has its own call site whose line is
// captured on the same source line.
func emit(l *logger.Logger, r *Rec) (file string, line int) {
	ctx := context.Background()
	lv := Levels[r.Level]
	switch r.Entry {
	case 0:
		_, file, line, _ = runtime.Caller(0)
		l.Log(ctx, lv, r.Msg, vlog.Args(r.Call)...) // stays on the line after runtime.Caller
		line++
	case 1:
		_, file, line, _ = runtime.Caller(0)
		l.LogAttrs(ctx, lv, r.Msg, vlog.Attrs(r.Call)...) // stays on the line after runtime.Caller
		line++
	case 3:
		return emitOddSource(l, r)
	default:
		_, file, line, _ = runtime.Caller(0)
		l.Logf(ctx, lv, "%s", r.Msg) // stays on the line after runtime.Caller
		line++
	}
	return
}

// IsFileOf reports whether got names the source file path: the whole path or its last
// elements, cut at a path separator (how many elements a handler shows is its own choice).
func IsFileOf(got, path string) bool {
	return got != "" && (got == path || strings.HasSuffix(path, "/"+got))
}

func LastTwo(file string) string {
	parts := strings.Split(file, "/")
	if len(parts) >= 2 {
		return strings.Join(parts[len(parts)-2:], "/")
	}
	return file
}

// derive builds the logger of a chain, sharing every already derived prefix: the loggers of
// different records are then siblings and descendants of common parents (a derivation
// tree), and a logger derived long ago is used again after siblings were derived from its
// parent - which is what exposes aliasing between a parent's and its children's buffers.
func (w *worker) derive(si int, chain []vlog.ChainOp) *logger.Logger {
	l := w.roots[si]
	key := fmt.Sprint(si)
	for _, c := range chain {
		key += "." + c.String()
		if d, ok := w.derived[key]; ok {
			l = d
			continue
		}
		l = vlog.Derive(l, []vlog.ChainOp{c})
		if len(w.derived) > 20000 {
			w.derived = map[string]*logger.Logger{}
		}
		w.derived[key] = l
	}
	return l
}

// Judge decides whether the chunks written for r are acceptable ("" = yes).
type Judge func(r *Rec, file string, line int, chunks [][]byte) string

var judge Judge
var handlerKind int

func (w *worker) run(r *Rec) string {
	si := 0
	if r.Source {
		si = 1
	}
	sk := w.sinks[si]
	sk.chunks = sk.chunks[:0]
	l := w.derive(si, r.Chain)
	file, line := emit(l, r)
	return judge(r, file, line, sk.chunks)
}

func Clip(b []byte) string {
	if len(b) > 400 {
		return string(b[:250]) + "…" + string(b[len(b)-100:])
	}
	return string(b)
}

// ---------------------------------------------------------------- enumeration

type Gen func(yield func(*Rec) bool)

// strings: every 1-/2-byte string and every scalar, in the three positions
func genStrings(scalarsEverywhere bool) Gen {
	return func(yield func(*Rec) bool) {
		n := 0
		place := func(s string, positions int) bool {
			for pos := 0; pos < positions; pos++ {
				n++
				r := &Rec{Level: n % 5, Source: n%7 == 0, Entry: n % 2}
				switch pos {
				case 0:
					r.Msg = s
					if n%3 == 0 {
						r.Entry = 2
					}
				case 1:
					r.Msg = "m"
					r.Call = []*vlog.Node{{Kind: vlog.NLeaf, Key: s, Leaf: vlog.LeafByName("str")}}
				case 2:
					r.Msg = "m"
					r.Call = []*vlog.Node{{Kind: vlog.NLeaf, Key: "k", Leaf: vlog.StrLeaf(s)}}
				}
				if !yield(r) {
					return false
				}
			}
			return true
		}
		for a := 0; a < 256; a++ {
			if !place(string([]byte{byte(a)}), 3) {
				return
			}
		}
		for a := 0; a < 256; a++ {
			for b := 0; b < 256; b++ {
				if !place(string([]byte{byte(a), byte(b)}), 3) {
					return
				}
			}
		}
		pos := 1
		if scalarsEverywhere {
			pos = 3
		}
		for c := rune(0); c <= utf8.MaxRune; c++ {
			if c >= 0xD800 && c <= 0xDFFF {
				continue
			}
			if !place(string(c), pos) {
				return
			}
		}
	}
}

// kinds: every value kind at every position class
func genKinds() Gen {
	return func(yield func(*Rec) bool) {
		n := 0
		for _, lf := range vlog.Leaves {
			leaf := func(k string) *vlog.Node { return &vlog.Node{Kind: vlog.NLeaf, Key: k, Leaf: lf} }
			str := func(k string) *vlog.Node { return &vlog.Node{Kind: vlog.NLeaf, Key: k, Leaf: vlog.LeafByName("str")} }
			shapes := []struct {
				chain []vlog.ChainOp
				call  []*vlog.Node
			}{
				{nil, []*vlog.Node{leaf("v")}},
				{nil, []*vlog.Node{str("a"), leaf("v"), str("z")}},
				{nil, []*vlog.Node{{Kind: vlog.NGroup, Key: "g", Kids: []*vlog.Node{leaf("v"), str("z")}}}},
				{nil, []*vlog.Node{{Kind: vlog.NGroup, Key: "", Kids: []*vlog.Node{leaf("v")}}, str("z")}},
				{nil, []*vlog.Node{{Kind: vlog.NLVGroup, Key: "lg", Kids: []*vlog.Node{str("a"), leaf("v")}}}},
				{[]vlog.ChainOp{{Attrs: []*vlog.Node{leaf("v")}}}, []*vlog.Node{str("z")}},
				{[]vlog.ChainOp{{Group: "grp"}, {Attrs: []*vlog.Node{leaf("v")}}}, nil},
				{[]vlog.ChainOp{{Attrs: []*vlog.Node{str("a")}}, {Group: "grp"}}, []*vlog.Node{leaf("v")}},
				{[]vlog.ChainOp{{Group: "g1"}, {Group: "g2"}}, []*vlog.Node{{Kind: vlog.NGroup, Key: "in", Kids: []*vlog.Node{leaf("v")}}}},
				// siblings of a shared parent (derivations are memoized per chain prefix): derive and use
				// child A, derive child B from the same parent, then use child A again
				{[]vlog.ChainOp{{Attrs: []*vlog.Node{leaf("v")}}, {Group: "ga"}}, []*vlog.Node{str("z")}},
				{[]vlog.ChainOp{{Attrs: []*vlog.Node{leaf("v")}}, {Group: "gb"}}, []*vlog.Node{str("z")}},
				{[]vlog.ChainOp{{Attrs: []*vlog.Node{leaf("v")}}, {Group: "ga"}}, []*vlog.Node{str("z")}},
				{[]vlog.ChainOp{{Attrs: []*vlog.Node{str("a"), leaf("v")}}, {Attrs: []*vlog.Node{str("s1")}}}, nil},
				{[]vlog.ChainOp{{Attrs: []*vlog.Node{str("a"), leaf("v")}}, {Attrs: []*vlog.Node{str("s2")}}}, nil},
				{[]vlog.ChainOp{{Attrs: []*vlog.Node{str("a"), leaf("v")}}, {Attrs: []*vlog.Node{str("s1")}}}, nil},
				{[]vlog.ChainOp{{Group: "g"}, {Attrs: []*vlog.Node{leaf("v")}}, {Group: "ha"}}, []*vlog.Node{str("z")}},
				{[]vlog.ChainOp{{Group: "g"}, {Attrs: []*vlog.Node{leaf("v")}}, {Attrs: []*vlog.Node{str("hb")}}}, []*vlog.Node{str("z")}},
				{[]vlog.ChainOp{{Group: "g"}, {Attrs: []*vlog.Node{leaf("v")}}, {Group: "ha"}}, []*vlog.Node{str("z")}},
			}
			for _, sh := range shapes {
				for lv := 0; lv < 5; lv++ {
					for _, src := range []bool{false, true} {
						for entry := 0; entry < 2; entry++ {
							n++
							if !yield(&Rec{Level: lv, Source: src, Entry: entry, Msg: "kinds", Chain: sh.chain, Call: sh.call}) {
								return
							}
						}
					}
				}
			}
		}
	}
}

var structLeaves = []*vlog.Leaf{vlog.LeafByName("str"), vlog.LeafByName("int64-min"), vlog.LeafByName("float-nan"), vlog.LeafByName("nil")}

// structure: every (chain, call) with a total node budget
func genStructure(budget, maxChain int) Gen {
	return func(yield func(*Rec) bool) {
		n := 0
		var chains func(prefix []vlog.ChainOp, left, ops int) bool
		chains = func(prefix []vlog.ChainOp, left, ops int) bool {
			// emit every call-site forest that fits the remaining budget
			for _, call := range vlog.Forests(left, structLeaves) {
				if len(call) > 2 {
					continue
				}
				n++
				ctr := 0
				var ch []vlog.ChainOp
				for _, c := range prefix {
					if c.Group != "" {
						ch = append(ch, c)
					} else {
						ch = append(ch, vlog.ChainOp{Attrs: vlog.Rekey(c.Attrs, &ctr)})
					}
				}
				r := &Rec{Level: n % 5, Source: n%3 == 0, Entry: n % 2, Msg: "structure", Chain: ch, Call: vlog.Rekey(call, &ctr)}
				if len(call) == 0 && n%4 == 0 {
					r.Entry = 2
				}
				if !yield(r) {
					return false
				}
			}
			if ops == 0 {
				return true
			}
			for _, g := range []string{"g", "h"} {
				if left >= 1 && !chains(append(append([]vlog.ChainOp{}, prefix...), vlog.ChainOp{Group: g}), left-1, ops-1) {
					return false
				}
			}
			for used := 1; used <= left; used++ {
				for _, f := range vlog.Forests(used, structLeaves) {
					sz := 0
					for _, t := range f {
						sz += t.Size()
					}
					if sz != used || len(f) == 0 || len(f) > 2 {
						continue
					}
					if !chains(append(append([]vlog.ChainOp{}, prefix...), vlog.ChainOp{Attrs: f}), left-used, ops-1) {
						return false
					}
				}
			}
			return true
		}
		chains(nil, budget, maxChain)
	}
}

// ---------------------------------------------------------------- driver

type passResult struct {
	name    string
	evals   int64
	fail    string
	failRec string
	states  map[string]bool
	derivs  int64
	nontriv int64
}

func handlerOf(l *logger.Logger) any {
	v := reflect.ValueOf(l).Elem().Field(0)
	return reflect.NewAt(v.Type(), unsafe.Pointer(v.UnsafeAddr())).Elem().Interface()
}

func runPass(name string, g Gen, trackStates bool) *passResult {
	res := &passResult{name: name, states: map[string]bool{}}
	nw := vcommon.NProc()
	ch := make(chan []*Rec, nw*2)
	var wg sync.WaitGroup
	var mu sync.Mutex
	var stop atomic.Bool
	for i := 0; i < nw; i++ {
		wg.Add(1)
		go func() {
			defer wg.Done()
			w := newWorker()
			local := map[string]bool{}
			for batch := range ch {
				for _, r := range batch {
					if stop.Load() {
						continue
					}
					why := func() (why string) {
						defer func() {
							if p := recover(); p != nil {
								why = fmt.Sprintf("panic: %v", p)
							}
						}()
						return w.run(r)
					}()
					atomic.AddInt64(&res.evals, 1)
					if len(r.Chain) > 0 {
						atomic.AddInt64(&res.derivs, int64(len(r.Chain)))
					}
					if trackStates && why == "" {
						si := 0
						if r.Source {
							si = 1
						}
						w.sinks[si].chunks = nil
						local[vstate.Dump(handlerOf(vlog.Derive(w.roots[si], r.Chain)))] = true
					}
					if why != "" {
						mu.Lock()
						if res.fail == "" || len(r.String()) < len(res.failRec) {
							res.fail, res.failRec = why, r.String()
						}
						mu.Unlock()
						stop.Store(true)
					}
				}
			}
			mu.Lock()
			for k := range local {
				res.states[k] = true
			}
			mu.Unlock()
		}()
	}
	var batch []*Rec
	g(func(r *Rec) bool {
		batch = append(batch, r)
		if len(batch) == 512 {
			ch <- batch
			batch = nil
		}
		return !stop.Load() && time.Now().Before(deadline)
	})
	if len(batch) > 0 {
		ch <- batch
	}
	close(ch)
	wg.Wait()
	return res
}

var deadline time.Time

func newRoot(w *sink, source bool) *logger.Logger {
	opts := logger.NewOptions(logger.LevelDebug, false, source)
	switch handlerKind {
	case 0:
		return logger.New(logger.NewNanoHandler(w, opts))
	case 1:
		return logger.New(logger.NewTextHandler(w, opts))
	}
	return logger.New(logger.NewJsonHandler(w, opts))
}

// Pass is one generator with a name.
type Pass struct {
	Name        string
	Gen         Gen
	TrackStates bool
}

// StandardPasses returns the three passes shared by C01 and C13.
func StandardPasses() []Pass {
	budget, maxChain := 4, 2
	if vcommon.Thorough() {
		budget, maxChain = 5, 3
	}
	return []Pass{
		{"strings", genStrings(vcommon.Thorough()), false},
		{"value-kinds", genKinds(), true},
		{fmt.Sprintf("structure(budget %d nodes, chains <= %d)", budget, maxChain), genStructure(budget, maxChain), true},
		{"deep-chains(1..300 derivations)", GenDeepChains(), false},
		{"odd-source-file-name", GenOddSource(), false},
	}
}

// zonesPass: records whose instants fall into the same second (and the next one) but carry
// different time zones, one after the other through one logger: the time written must be each
// record's own (a rendering remembered per second must not leak from one record into the next).
// Sequential, before the parallel passes: the clock is this package's Fake.
func zonesPass() *passResult {
	res := &passResult{name: "same-second-different-zones", states: map[string]bool{}}
	w := newWorker()
	saved := Fake
	defer func() { Fake = saved }()
	base := time.Date(2023, 8, 16, 0, 35, 15, 208873091, time.UTC)
	zones := []*time.Location{time.UTC, time.FixedZone("", -8*3600), time.FixedZone("", 5*3600+45*60), time.FixedZone("", 14*3600), time.FixedZone("", -30*60), time.UTC}
	for round := 0; round < 2 && res.fail == ""; round++ {
		for sec := 0; sec < 2 && res.fail == ""; sec++ {
			for _, z := range zones {
				Fake = base.Add(time.Duration(sec) * time.Second).In(z)
				r := &Rec{Level: 1, Msg: "zone"}
				res.evals++
				if m := w.run(r); m != "" {
					res.fail = m + fmt.Sprintf(" [record time %v; the records before it in this pass carry other zones in the same second]", Fake)
					res.failRec = r.String()
					break
				}
			}
		}
	}
	return res
}

// Main runs the passes against handler kind (0 nano, 1 text, 2 json) and writes the evidence.
func Main(id string, kind int, j Judge, passes []Pass, rule string, samples []any, assumptions []string) {
	flag.Parse()
	deadline = vcommon.Deadline()
	vtime.SetFake(&Fake)
	judge, handlerKind = j, kind
	var results []*passResult
	results = append(results, zonesPass())
	for _, p := range passes {
		results = append(results, runPass(p.Name, p.Gen, p.TrackStates))
	}
	var viols []vcommon.Violation
	var evals int64
	states := map[string]bool{}
	var derivs int64
	var per []map[string]any
	complete := time.Now().Before(deadline)
	for _, p := range results {
		fmt.Printf("%-45s records=%-9d handler-states=%d\n", p.name, p.evals, len(p.states))
		evals += p.evals
		derivs += p.derivs
		for k := range p.states {
			states[k] = true
		}
		per = append(per, map[string]any{"pass": p.name, "records": p.evals, "distinct_handler_states": len(p.states)})
		if p.fail != "" {
			viols = append(viols, vcommon.Violation{Scenario: p.name, Fingerprint: strings.SplitN(p.name, "(", 2)[0] + "|" + shape(p.failRec),
				Message: id + ": " + p.fail + "\n record: " + p.failRec, Witness: map[string]any{"record": p.failRec}})
		}
	}
	code, n := vcommon.Report(id, viols)
	vcommon.WriteEvidence(&vcommon.Evidence{PropertyID: id, Level: "model_checking", Violations: n,
		Coverage: map[string]any{
			"states": len(states) + 1, "transitions": int(derivs) + 1, "traces_validated_against_impl": int(evals),
			"evaluations": int(evals), "distinct_nontrivial": len(states) + 1,
			"rule":       rule,
			"exhaustive": complete, "passes": per, "samples": samples,
		},
		Assumptions: assumptions})
	os.Exit(code)
}

func firstLine(s string) string {
	if i := strings.IndexByte(s, '\n'); i >= 0 {
		return s[:i]
	}
	return s
}

// shape abstracts a record description to its structure (for a stable fingerprint)
func shape(s string) string {
	if i := strings.Index(s, "msg="); i >= 0 {
		return s[i:]
	}
	return s
}

// GenGroupNames places every 1-/2-byte string (and, in thorough, every scalar) as a
// WithGroup name and as a group key, with a leaf below it.
func GenGroupNames(scalars bool) Gen {
	return func(yield func(*Rec) bool) {
		n := 0
		place := func(s string) bool {
			if s == "" {
				return true
			}
			leaf := &vlog.Node{Kind: vlog.NLeaf, Key: "k", Leaf: vlog.LeafByName("str")}
			n++
			if !yield(&Rec{Level: n % 5, Source: n%5 == 0, Entry: n % 2, Msg: "m", Chain: []vlog.ChainOp{{Group: s}}, Call: []*vlog.Node{leaf}}) {
				return false
			}
			n++
			return yield(&Rec{Level: n % 5, Entry: n % 2, Msg: "m", Call: []*vlog.Node{{Kind: vlog.NGroup, Key: s, Kids: []*vlog.Node{leaf}}}})
		}
		for a := 0; a < 256; a++ {
			if !place(string([]byte{byte(a)})) {
				return
			}
		}
		for a := 0; a < 256; a++ {
			for b := 0; b < 256; b++ {
				if !place(string([]byte{byte(a), byte(b)})) {
					return
				}
			}
		}
		if scalars {
			for c := rune(0); c <= utf8.MaxRune; c++ {
				if c >= 0xD800 && c <= 0xDFFF {
					continue
				}
				if !place(string(c)) {
					return
				}
			}
		}
	}
}

// GenClassPairs places every string of 1..3 representatives of the character classes in
// every position (message, key, group name, value).
func GenClassPairs() Gen {
	classes := []string{"a", " ", "=", "\"", "\\", "\n", "\x7f", "\u00a0", "\u2028", "\u200b", "\ufffd", "\xff", "\t", ".", "é"}
	return func(yield func(*Rec) bool) {
		var strs []string
		for _, a := range classes {
			strs = append(strs, a)
			for _, b := range classes {
				strs = append(strs, a+b)
				for _, c := range classes {
					strs = append(strs, a+b+c)
				}
			}
		}
		// long strings: dotted paths beyond any small scratch-buffer size (32, 64 bytes)
		for _, a := range classes {
			strs = append(strs, strings.Repeat("k", 34)+a, a+strings.Repeat("k", 40), strings.Repeat("ab", 35)+a+"z")
			// lengths around 32 and 64 bytes: a dotted path that just fits / just overflows a scratch buffer
			for _, l := range []int{27, 28, 29, 30, 31, 32, 33, 61, 62, 63, 64, 65} {
				if l > len(a) {
					strs = append(strs, strings.Repeat("p", l-len(a))+a)
				}
			}
		}
		n := 0
		for _, s := range strs {
			leaf := &vlog.Node{Kind: vlog.NLeaf, Key: "k", Leaf: vlog.LeafByName("str")}
			recs := []*Rec{
				{Msg: s},
				{Msg: "m", Call: []*vlog.Node{{Kind: vlog.NLeaf, Key: s, Leaf: vlog.LeafByName("int64-max")}}},
				{Msg: "m", Call: []*vlog.Node{{Kind: vlog.NLeaf, Key: "k", Leaf: vlog.StrLeaf(s)}}},
				{Msg: "m", Chain: []vlog.ChainOp{{Group: s}, {Attrs: []*vlog.Node{leaf}}}, Call: []*vlog.Node{{Kind: vlog.NGroup, Key: s, Kids: []*vlog.Node{{Kind: vlog.NLeaf, Key: s, Leaf: vlog.StrLeaf(s)}}}}},
			}
			for _, r := range recs {
				n++
				r.Level, r.Source, r.Entry = n%5, n%4 == 0, n%2
				if !yield(r) {
					return
				}
			}
		}
	}
}

// GenDeepChains logs through chains of up to 300 derivations (counters and buffers that only
// misbehave at depth).
func GenDeepChains() Gen {
	return func(yield func(*Rec) bool) {
		leaf := func(k string) *vlog.Node { return &vlog.Node{Kind: vlog.NLeaf, Key: k, Leaf: vlog.LeafByName("str")} }
		n := 0
		for d := 1; d <= 300; d++ {
			var groups, mixed []vlog.ChainOp
			for i := 0; i < d; i++ {
				groups = append(groups, vlog.ChainOp{Group: fmt.Sprintf("g%d", i%7)})
				if i%2 == 0 {
					mixed = append(mixed, vlog.ChainOp{Group: fmt.Sprintf("m%d", i%5)})
				} else {
					mixed = append(mixed, vlog.ChainOp{Attrs: []*vlog.Node{leaf(fmt.Sprintf("a%d", i))}})
				}
			}
			for _, ch := range [][]vlog.ChainOp{groups, mixed} {
				n++
				if !yield(&Rec{Level: n % 5, Source: n%2 == 0, Entry: n % 2, Msg: "deep", Chain: ch, Call: []*vlog.Node{leaf("z")}}) {
					return
				}
			}
		}
	}
}

// GenOddSource logs from a call site whose recorded file name contains spaces, '=', quotes.
func GenOddSource() Gen {
	return func(yield func(*Rec) bool) {
		leaf := &vlog.Node{Kind: vlog.NLeaf, Key: "k", Leaf: vlog.LeafByName("str")}
		for lv := 0; lv < 5; lv++ {
			for _, ch := range [][]vlog.ChainOp{nil, {{Group: "g"}}, {{Attrs: []*vlog.Node{leaf}}}} {
				if !yield(&Rec{Level: lv, Source: true, Entry: 3, Msg: "odd source", Chain: ch, Call: []*vlog.Node{leaf}}) {
					return
				}
			}
		}
	}
}

// The functions below must stay the last ones of this file, in this order: each //line
// directive renames everything after it.
func emitOddSource(l *logger.Logger, r *Rec) (file string, line int) {
	ctx := context.Background()
	lv := Levels[r.Level]
	switch r.Level % 3 {
	case 0:
		return emitOddSource1(l, r)
	case 1:
		return emitOddSource2(l, r)
	}
//line we ird=dir/"q uote" level=ERROR.go:77
	l.Log(ctx, lv, r.Msg, vlog.Args(r.Call)...)
	return `we ird=dir/"q uote" level=ERROR.go`, 77
}

func emitOddSource1(l *logger.Logger, r *Rec) (file string, line int) {
	ctx := context.Background()
	lv := Levels[r.Level]
//line /abs/dir one/dir=two/fi"le.go:1234567
	l.Log(ctx, lv, r.Msg, vlog.Args(r.Call)...)
	return `/abs/dir one/dir=two/fi"le.go`, 1234567
}

func emitOddSource2(l *logger.Logger, r *Rec) (file string, line int) {
	ctx := context.Background()
	lv := Levels[r.Level]
//line main.go:1
	l.Log(ctx, lv, r.Msg, vlog.Args(r.Call)...)
	return `main.go`, 1
}
