// Package voracle holds the independent oracles: an ordered JSON reader, a tokenizer for
// the Text handler's line format, a POSIX shell word-splitting model, and others. They are
// deliberately boring and share no code with what they judge.
package voracle

import (
	"bytes"
	"encoding/json"
	"fmt"
	"io"
	"strings"
)

// JVal is a JSON value that keeps object member order and duplicates.
type JVal struct {
	Kind    byte // 'o' object, 'a' array, 's' string, 'n' number, 'b' bool, 'z' null
	Str     string
	Num     json.Number
	Bool    bool
	Members []JMember
	Elems   []JVal
}

type JMember struct {
	Key string
	Val JVal
}

// ParseJSONLine parses exactly one JSON value occupying the whole of line (which must not
// contain the trailing newline).
func ParseJSONLine(line []byte) (JVal, error) {
	dec := json.NewDecoder(bytes.NewReader(line))
	dec.UseNumber()
	v, err := readVal(dec)
	if err != nil {
		return v, err
	}
	if _, err := dec.Token(); err != io.EOF {
		return v, fmt.Errorf("trailing data after the JSON value")
	}
	return v, nil
}

func readVal(dec *json.Decoder) (JVal, error) {
	tok, err := dec.Token()
	if err != nil {
		return JVal{}, err
	}
	return fromTok(dec, tok)
}

func fromTok(dec *json.Decoder, tok json.Token) (JVal, error) {
	switch t := tok.(type) {
	case json.Delim:
		switch t {
		case '{':
			v := JVal{Kind: 'o'}
			for dec.More() {
				kt, err := dec.Token()
				if err != nil {
					return v, err
				}
				k, ok := kt.(string)
				if !ok {
					return v, fmt.Errorf("object key is not a string")
				}
				mv, err := readVal(dec)
				if err != nil {
					return v, err
				}
				v.Members = append(v.Members, JMember{k, mv})
			}
			if _, err := dec.Token(); err != nil {
				return v, err
			}
			return v, nil
		case '[':
			v := JVal{Kind: 'a'}
			for dec.More() {
				ev, err := readVal(dec)
				if err != nil {
					return v, err
				}
				v.Elems = append(v.Elems, ev)
			}
			if _, err := dec.Token(); err != nil {
				return v, err
			}
			return v, nil
		}
		return JVal{}, fmt.Errorf("unexpected delimiter %v", t)
	case string:
		return JVal{Kind: 's', Str: t}, nil
	case json.Number:
		return JVal{Kind: 'n', Num: t}, nil
	case bool:
		return JVal{Kind: 'b', Bool: t}, nil
	case nil:
		return JVal{Kind: 'z'}, nil
	}
	return JVal{}, fmt.Errorf("unexpected token %v", tok)
}

func (v JVal) String() string {
	var b strings.Builder
	v.write(&b)
	return b.String()
}

func (v JVal) write(b *strings.Builder) {
	switch v.Kind {
	case 'o':
		b.WriteString("{")
		for i, m := range v.Members {
			if i > 0 {
				b.WriteString(",")
			}
			fmt.Fprintf(b, "%q:", m.Key)
			m.Val.write(b)
		}
		b.WriteString("}")
	case 'a':
		b.WriteString("[")
		for i, e := range v.Elems {
			if i > 0 {
				b.WriteString(",")
			}
			e.write(b)
		}
		b.WriteString("]")
	case 's':
		fmt.Fprintf(b, "%q", v.Str)
	case 'n':
		b.WriteString(string(v.Num))
	case 'b':
		fmt.Fprintf(b, "%v", v.Bool)
	case 'z':
		b.WriteString("null")
	default:
		b.WriteString("?")
	}
}

// Equal compares two values structurally; numbers are compared numerically.
func (v JVal) Equal(w JVal) bool {
	if v.Kind != w.Kind {
		return false
	}
	switch v.Kind {
	case 'o':
		if len(v.Members) != len(w.Members) {
			return false
		}
		for i := range v.Members {
			if v.Members[i].Key != w.Members[i].Key || !v.Members[i].Val.Equal(w.Members[i].Val) {
				return false
			}
		}
		return true
	case 'a':
		if len(v.Elems) != len(w.Elems) {
			return false
		}
		for i := range v.Elems {
			if !v.Elems[i].Equal(w.Elems[i]) {
				return false
			}
		}
		return true
	case 's':
		return v.Str == w.Str
	case 'n':
		return NumEqual(v.Num, w.Num)
	case 'b':
		return v.Bool == w.Bool
	}
	return true
}

func NumEqual(a, b json.Number) bool {
	if a == b {
		return true
	}
	ai, e1 := a.Int64()
	bi, e2 := b.Int64()
	if e1 == nil && e2 == nil {
		return ai == bi
	}
	af, e1 := a.Float64()
	bf, e2 := b.Float64()
	if e1 == nil && e2 == nil {
		return af == bf && (e1 == nil) && string(a) != "" && string(b) != "" && sameIntIfBig(a, b)
	}
	return false
}

// sameIntIfBig avoids declaring two large integers equal through float rounding.
func sameIntIfBig(a, b json.Number) bool {
	as, bs := string(a), string(b)
	if strings.ContainsAny(as, ".eE") || strings.ContainsAny(bs, ".eE") {
		return true
	}
	return as == bs
}
