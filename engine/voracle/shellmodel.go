package voracle

import "strings"

// ShellWords is a word-splitting model of POSIX shell quoting (XCU 2.2, 2.6) for one
// logical line of input: it returns the words the shell would pass on and the list of
// events that are not plain literal text (expansion, substitution, globbing, operators,
// comments, line ends, tilde expansion, unterminated quotes).
//
// A tilde expansion of "~" directly followed by "/" (or end of word) at the start of a word
// is rendered as the marker TildeHome in the word.
const TildeHome = "\x00HOME\x00"

func ShellWords(text string) (words []string, events []string) {
	var cur strings.Builder
	inWord := false
	flush := func() {
		if inWord {
			words = append(words, cur.String())
			cur.Reset()
			inWord = false
		}
	}
	ev := func(e string) { events = append(events, e) }
	n := len(text)
	for i := 0; i < n; {
		c := text[i]
		switch c {
		case ' ', '\t':
			flush()
			i++
		case '\n':
			flush()
			ev("newline")
			i++
		case ';', '&', '|', '<', '>', '(', ')':
			flush()
			ev("operator " + string(c))
			i++
		case '\'':
			inWord = true
			j := strings.IndexByte(text[i+1:], '\'')
			if j < 0 {
				ev("unterminated single quote")
				cur.WriteString(text[i+1:])
				i = n
				break
			}
			cur.WriteString(text[i+1 : i+1+j])
			i += j + 2
		case '"':
			inWord = true
			i++
			closed := false
			for i < n {
				d := text[i]
				if d == '"' {
					closed = true
					i++
					break
				}
				switch d {
				case '$':
					ev("expansion $")
					cur.WriteByte(d)
					i++
				case '`':
					ev("command substitution")
					cur.WriteByte(d)
					i++
				case '\\':
					if i+1 < n && strings.IndexByte("$`\"\\\n", text[i+1]) >= 0 {
						if text[i+1] != '\n' {
							cur.WriteByte(text[i+1])
						}
						i += 2
					} else {
						cur.WriteByte(d)
						i++
					}
				default:
					cur.WriteByte(d)
					i++
				}
			}
			if !closed {
				ev("unterminated double quote")
			}
		case '\\':
			if i+1 >= n {
				inWord = true
				cur.WriteByte('\\')
				i++
			} else if text[i+1] == '\n' {
				i += 2 // line continuation
			} else {
				inWord = true
				cur.WriteByte(text[i+1])
				i += 2
			}
		case '$':
			inWord = true
			ev("expansion $")
			cur.WriteByte(c)
			i++
		case '`':
			inWord = true
			ev("command substitution")
			cur.WriteByte(c)
			i++
		case '*', '?', '[':
			inWord = true
			ev("glob " + string(c))
			cur.WriteByte(c)
			i++
		case '#':
			if !inWord {
				ev("comment")
				j := strings.IndexByte(text[i:], '\n')
				if j < 0 {
					i = n
				} else {
					i += j
				}
			} else {
				cur.WriteByte(c)
				i++
			}
		case '~':
			if !inWord {
				// tilde-prefix: up to the first unquoted slash
				j := i + 1
				for j < n && text[j] != '/' && strings.IndexByte(" \t\n;&|<>()'\"\\$`", text[j]) < 0 {
					j++
				}
				inWord = true
				if j == i+1 {
					ev("tilde expansion")
					cur.WriteString(TildeHome)
				} else {
					ev("tilde expansion of a login name")
					cur.WriteString(text[i:j])
				}
				i = j
			} else {
				cur.WriteByte(c)
				i++
			}
		default:
			inWord = true
			cur.WriteByte(c)
			i++
		}
	}
	flush()
	return
}
