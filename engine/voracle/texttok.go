package voracle

import (
	"fmt"
	"strconv"
	"unicode"
	"unicode/utf8"
)

// TextPair is one key=value token of a Text handler line, decoded.
type TextPair struct {
	Key, Val             string
	KeyQuoted, ValQuoted bool
}

// TokenizeTextLine splits a line (without the trailing newline) into key=value tokens
// separated by single spaces. A key or value is either a Go-quoted string or a bare run
// free of Unicode whitespace, '=' and '"'.
func TokenizeTextLine(line string) ([]TextPair, error) {
	var out []TextPair
	i := 0
	atom := func(stop byte) (string, bool, error) {
		if i < len(line) && line[i] == '"' {
			q, err := strconv.QuotedPrefix(line[i:])
			if err != nil {
				return "", true, fmt.Errorf("offset %d: bad quoted string: %v", i, err)
			}
			s, err := strconv.Unquote(q)
			if err != nil {
				return "", true, fmt.Errorf("offset %d: cannot unquote %s: %v", i, q, err)
			}
			i += len(q)
			return s, true, nil
		}
		start := i
		for i < len(line) {
			r, sz := utf8.DecodeRuneInString(line[i:])
			if r == ' ' || r == '=' {
				break
			}
			if r == utf8.RuneError && sz == 1 {
				return "", false, fmt.Errorf("offset %d: invalid UTF-8 byte in a bare token", i)
			}
			if unicode.IsSpace(r) || r == '"' {
				return "", false, fmt.Errorf("offset %d: %q inside a bare token", i, r)
			}
			i += sz
		}
		return line[start:i], false, nil
	}
	for i < len(line) {
		k, kq, err := atom('=')
		if err != nil {
			return out, err
		}
		if !kq && k == "" {
			return out, fmt.Errorf("offset %d: empty bare key", i)
		}
		if i >= len(line) || line[i] != '=' {
			return out, fmt.Errorf("offset %d: expected '=' after key %q", i, k)
		}
		i++
		v, vq, err := atom(' ')
		if err != nil {
			return out, err
		}
		if !vq && v == "" {
			return out, fmt.Errorf("offset %d: empty bare value for key %q", i, k)
		}
		out = append(out, TextPair{k, v, kq, vq})
		if i == len(line) {
			break
		}
		if line[i] != ' ' {
			return out, fmt.Errorf("offset %d: expected a single space between tokens, found %q", i, line[i])
		}
		i++
		if i == len(line) {
			return out, fmt.Errorf("trailing space at the end of the line")
		}
	}
	return out, nil
}
