package vstate

import (
	"fmt"
	"reflect"
	"sort"
	"strings"
	"unsafe"
)

// Dump renders a canonical deep dump of v: unexported fields are read, maps are sorted,
// pointer graphs are followed with cycle marks, synchronisation primitives are skipped,
// funcs are rendered by code pointer. It is complete (never merges states with different
// contents) and keeps working when fields are renamed.
func Dump(v any) string {
	var b strings.Builder
	d := &dumper{b: &b, seen: map[uintptr]int{}}
	d.val(reflect.ValueOf(v), 0)
	return b.String()
}

type dumper struct {
	b    *strings.Builder
	seen map[uintptr]int
	n    int
	// SliceCap makes spare capacity part of the state (needed where aliasing matters)
}

func skipType(t reflect.Type) bool {
	p := t.PkgPath()
	return p == "sync" || strings.HasSuffix(p, "shim/vsync") || strings.HasSuffix(p, "shim/vsched")
}

func (d *dumper) val(v reflect.Value, depth int) {
	if !v.IsValid() {
		d.b.WriteString("nil")
		return
	}
	if depth > 40 {
		d.b.WriteString("…")
		return
	}
	t := v.Type()
	if skipType(t) {
		d.b.WriteString("_")
		return
	}
	switch v.Kind() {
	case reflect.Ptr:
		if v.IsNil() {
			d.b.WriteString("nil")
			return
		}
		p := v.Pointer()
		if id, ok := d.seen[p]; ok {
			fmt.Fprintf(d.b, "^%d", id)
			return
		}
		d.n++
		d.seen[p] = d.n
		fmt.Fprintf(d.b, "&%d", d.n)
		d.val(v.Elem(), depth+1)
	case reflect.Interface:
		if v.IsNil() {
			d.b.WriteString("nil")
			return
		}
		fmt.Fprintf(d.b, "(%s)", v.Elem().Type())
		d.val(v.Elem(), depth+1)
	case reflect.Struct:
		d.b.WriteString("{")
		for i := 0; i < v.NumField(); i++ {
			f := t.Field(i)
			if skipType(f.Type) || f.Name == "_" {
				continue
			}
			fv := v.Field(i)
			if !fv.CanInterface() {
				if fv.CanAddr() {
					fv = reflect.NewAt(f.Type, unsafe.Pointer(fv.UnsafeAddr())).Elem()
				} else {
					// copy to addressable storage
					c := reflect.New(t).Elem()
					c.Set(v)
					fv = reflect.NewAt(f.Type, unsafe.Pointer(c.Field(i).UnsafeAddr())).Elem()
				}
			}
			d.b.WriteString(f.Name)
			d.b.WriteString(":")
			d.val(fv, depth+1)
			d.b.WriteString(" ")
		}
		d.b.WriteString("}")
	case reflect.Map:
		if v.IsNil() {
			d.b.WriteString("nilmap")
			return
		}
		// keys are rendered first and sorted; values are then dumped in key order so that
		// pointer numbering does not depend on Go's random map iteration order
		type kv struct {
			k string
			v reflect.Value
		}
		var items []kv
		it := v.MapRange()
		for it.Next() {
			var kb strings.Builder
			(&dumper{b: &kb, seen: map[uintptr]int{}}).val(it.Key(), depth+1)
			items = append(items, kv{kb.String(), it.Value()})
		}
		sort.Slice(items, func(i, j int) bool { return items[i].k < items[j].k })
		d.b.WriteString("map[")
		for _, x := range items {
			d.b.WriteString(x.k + ":")
			d.val(x.v, depth+1)
			d.b.WriteString(" ")
		}
		d.b.WriteString("]")
	case reflect.Slice:
		if v.IsNil() {
			d.b.WriteString("nilslice")
			return
		}
		if t.Elem().Kind() == reflect.Uint8 {
			fmt.Fprintf(d.b, "%q/cap%d", v.Bytes(), v.Cap())
			return
		}
		fmt.Fprintf(d.b, "[len%d cap%d:", v.Len(), v.Cap())
		for i := 0; i < v.Len(); i++ {
			d.val(v.Index(i), depth+1)
			d.b.WriteString(" ")
		}
		d.b.WriteString("]")
	case reflect.Array:
		d.b.WriteString("[")
		// run-length encode long arrays of equal elements
		prev, run := "", 0
		flush := func() {
			if run > 0 {
				if run > 1 {
					fmt.Fprintf(d.b, "%s*%d ", prev, run)
				} else {
					d.b.WriteString(prev + " ")
				}
			}
		}
		for i := 0; i < v.Len(); i++ {
			var eb strings.Builder
			sub := &dumper{b: &eb, seen: d.seen, n: d.n}
			sub.val(v.Index(i), depth+1)
			d.n = sub.n
			if eb.String() == prev {
				run++
				continue
			}
			flush()
			prev, run = eb.String(), 1
		}
		flush()
		d.b.WriteString("]")
	case reflect.Func:
		if v.IsNil() {
			d.b.WriteString("nilfunc")
		} else {
			fmt.Fprintf(d.b, "func@%x", v.Pointer())
		}
	case reflect.Chan, reflect.UnsafePointer:
		d.b.WriteString("?")
	case reflect.String:
		fmt.Fprintf(d.b, "%q", v.String())
	case reflect.Bool:
		fmt.Fprintf(d.b, "%v", v.Bool())
	case reflect.Int, reflect.Int8, reflect.Int16, reflect.Int32, reflect.Int64:
		fmt.Fprintf(d.b, "%d", v.Int())
	case reflect.Uint, reflect.Uint8, reflect.Uint16, reflect.Uint32, reflect.Uint64, reflect.Uintptr:
		fmt.Fprintf(d.b, "%d", v.Uint())
	case reflect.Float32, reflect.Float64:
		fmt.Fprintf(d.b, "%v", v.Float())
	default:
		fmt.Fprintf(d.b, "<%s>", v.Kind())
	}
}
