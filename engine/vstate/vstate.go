// Package vstate is the explicit-state search used by the history-shaped (H) checks:
// breadth-first search whose transition function is a call into the real code. Live Go
// objects are not cloned: a state is stored as the shortest operation path reaching it
// and a successor is built by replaying that path on a fresh instance plus one more
// operation. States are identified by a canonical dump of the real object (plus the
// reference model's state).
package vstate

import (
	"crypto/sha1"
	"fmt"
	"sync"
	"time"
)

type Config[S any] struct {
	Name      string
	NOps      int
	OpName    func(op int) string
	New       func() S                 // fresh system (implementation + reference model)
	Apply     func(s S, op int) string // perform op; non-empty result = violation
	Canon     func(s S) string         // canonical state key
	Check     func(s S) string         // invariant evaluated in every new state
	Enabled   func(s S, op int) bool   // optional
	MaxDepth  int                      // <=0: until fixpoint
	MaxStates int
	Workers   int // goroutines expanding a BFS layer (default 1)
	Deadline  time.Time
}

type Failure struct {
	Msg  string   `json:"msg"`
	Path []int    `json:"path"`
	Ops  []string `json:"ops"`
}

type Result struct {
	Name        string    `json:"name"`
	States      int       `json:"states"`
	Transitions int       `json:"transitions"`
	Depth       int       `json:"depth_completed"`
	Fixpoint    bool      `json:"fixpoint_reached"`
	Complete    bool      `json:"complete"`
	PerDepth    []int     `json:"new_states_per_depth"`
	Failures    []Failure `json:"failures,omitempty"`
	Sample      []string  `json:"sample_path,omitempty"`
	WallS       float64   `json:"wall_s"`
}

func names[S any](c *Config[S], p []int) []string {
	out := make([]string, len(p))
	for i, o := range p {
		out[i] = c.OpName(o)
	}
	return out
}

// Explore runs the search. It stops at the first violation (the one with the shortest path
// and, among those, the first in alphabet order). With Workers > 1 the successors of a
// BFS layer are computed in parallel (New/Apply/Canon/Check must then be safe to call from
// several goroutines on different systems); the merge is sequential and deterministic.
func Explore[S any](c Config[S]) *Result {
	start := time.Now()
	res := &Result{Name: c.Name, Complete: true}
	build := func(path []int) (S, string) {
		s := c.New()
		for i, o := range path {
			if m := c.Apply(s, o); m != "" && i == len(path)-1 {
				return s, m
			}
		}
		return s, ""
	}
	type key = [20]byte
	seen := map[key]bool{}
	init, _ := build(nil)
	if m := c.Check(init); m != "" {
		res.Failures = append(res.Failures, Failure{Msg: m})
		return res
	}
	seen[sha1.Sum([]byte(c.Canon(init)))] = true
	res.States = 1
	frontier := [][]int{nil}
	res.PerDepth = []int{1}
	workers := c.Workers
	if workers < 1 {
		workers = 1
	}
	type succ struct {
		path []int
		k    key
		fail string
		skip bool
	}
	expand := func(path []int) []succ {
		out := make([]succ, 0, c.NOps)
		for op := 0; op < c.NOps; op++ {
			if c.Enabled != nil {
				s, _ := build(path)
				if !c.Enabled(s, op) {
					continue
				}
			}
			np := append(append(make([]int, 0, len(path)+1), path...), op)
			s, m := build(np)
			if m == "" {
				m = c.Check(s)
			}
			if m != "" {
				out = append(out, succ{path: np, fail: m})
				continue
			}
			out = append(out, succ{path: np, k: sha1.Sum([]byte(c.Canon(s)))})
		}
		return out
	}
	for depth := 1; len(frontier) > 0; depth++ {
		if c.MaxDepth > 0 && depth > c.MaxDepth {
			break
		}
		var next [][]int
		const chunk = 256
		for base := 0; base < len(frontier); base += chunk * workers {
			if !c.Deadline.IsZero() && time.Now().After(c.Deadline) || c.MaxStates > 0 && res.States >= c.MaxStates {
				res.Complete = false
				res.WallS = time.Since(start).Seconds()
				return res
			}
			end := base + chunk*workers
			if end > len(frontier) {
				end = len(frontier)
			}
			results := make([][]succ, end-base)
			var wg sync.WaitGroup
			for w := 0; w < workers; w++ {
				wg.Add(1)
				go func(w int) {
					defer wg.Done()
					for i := base + w; i < end; i += workers {
						results[i-base] = expand(frontier[i])
					}
				}(w)
			}
			wg.Wait()
			for _, rs := range results {
				for _, r := range rs {
					res.Transitions++
					if r.fail != "" {
						res.Failures = append(res.Failures, Failure{Msg: r.fail, Path: r.path, Ops: names(&c, r.path)})
						res.WallS = time.Since(start).Seconds()
						return res
					}
					if !seen[r.k] {
						seen[r.k] = true
						res.States++
						next = append(next, r.path)
						if len(r.path) > len(res.Sample) {
							res.Sample = names(&c, r.path)
						}
					}
				}
			}
		}
		res.Depth = depth
		res.PerDepth = append(res.PerDepth, len(next))
		frontier = next
		if len(next) == 0 {
			res.Fixpoint = true
		}
	}
	res.WallS = time.Since(start).Seconds()
	return res
}

func (r *Result) String() string {
	return fmt.Sprintf("%-28s states=%-7d transitions=%-8d depth=%d fixpoint=%v complete=%v %.1fs", r.Name, r.States, r.Transitions, r.Depth, r.Fixpoint, r.Complete, r.WallS)
}
