module verif

go 1.22.5

require (
	github.com/whoisnian/glb v0.0.0
	golang.org/x/tools v0.29.0
)

require golang.org/x/sys v0.29.0 // indirect

replace github.com/whoisnian/glb => /repo
