/*
 * C20: daemon.Launch hand-shake - caller, launcher and daemon as three processes, for
 * NLAUNCH (1 or 2) concurrent Launch calls.
 *
 * NOTIFY_FIRST is read from the code being checked (is signal.Notify called before
 * cmd.Start in launch()?). With the signal handler installed a SIGINT is queued for the
 * launcher's select; without it the default disposition kills the launcher.
 *
 * cls[i] records the orders the real harness can force through its two pause points:
 * whether the daemon's Done() landed before the launcher passed the pause point that
 * follows cmd.Start(), between the two pause points, or after the one that precedes the
 * wait.
 */
#ifndef NLAUNCH
#define NLAUNCH 1
#endif
#ifndef NOTIFY_FIRST
#define NOTIFY_FIRST 0
#endif

bool handler[NLAUNCH];          /* launcher has installed its SIGINT handler */
bool sigq[NLAUNCH];             /* SIGINT queued for the launcher */
bool l_alive[NLAUNCH];          /* launcher process exists */
bool l_killed[NLAUNCH];         /* launcher died from the signal (default disposition) */
bool l_exited[NLAUNCH];         /* launcher returned normally */
bool pid_printed[NLAUNCH];
bool d_started[NLAUNCH];
bool d_alive[NLAUNCH];
bool marker[NLAUNCH];           /* what the daemon does before Done() */
bool done_sent[NLAUNCH];
bool passed[NLAUNCH];           /* launcher passed the pause point after cmd.Start() */
bool passed2[NLAUNCH];          /* launcher passed the pause point before it starts waiting */
bool ret[NLAUNCH];              /* Launch returned */
bool ok[NLAUNCH];               /* ... with nil error and a pid */
bool marker_at_ret[NLAUNCH];
bool done_at_ret[NLAUNCH];
byte cls[NLAUNCH];              /* when Done() landed: 1 before the first pause point was passed, 2 between the two, 0 after the second */

proctype Daemon(byte i) {
	d_alive[i] = true;
	marker[i] = true;
	/* Done(): SIGINT to the parent */
	atomic {
		done_sent[i] = true;
		if
		:: !passed[i] -> cls[i] = 1
		:: passed[i] && !passed2[i] -> cls[i] = 2
		:: else -> cls[i] = 0
		fi;
		if
		:: l_alive[i] && handler[i] -> sigq[i] = true
		:: l_alive[i] && !handler[i] -> l_alive[i] = false; l_killed[i] = true
		:: else -> skip
		fi
	}
	/* keeps serving: never ends */
}

proctype Launcher(byte i) {
	l_alive[i] = true;
	if
	:: NOTIFY_FIRST -> handler[i] = true
	:: else -> skip
	fi;
	/* cmd.Start() */
	atomic { l_alive[i] -> d_started[i] = true; run Daemon(i) };
	atomic { l_alive[i] -> pid_printed[i] = true };
	/* pause point "launch-after-start" */
	atomic { l_alive[i] -> passed[i] = true };
	if
	:: !NOTIFY_FIRST -> atomic { l_alive[i] -> handler[i] = true }
	:: else -> skip
	fi;
	/* pause point "launch-before-wait" */
	atomic { l_alive[i] -> passed2[i] = true };
	/* select { case <-finished: case <-interrupt: } */
	atomic { l_alive[i] && sigq[i] -> l_alive[i] = false; l_exited[i] = true }
}

proctype Caller(byte i) {
	run Launcher(i);
	/* cmd.Run(): wait for the launcher to end, then decide */
	atomic {
		(l_exited[i] || l_killed[i]) ->
		ret[i] = true;
		ok[i] = l_exited[i] && pid_printed[i];
		marker_at_ret[i] = marker[i];
		done_at_ret[i] = done_sent[i]
	}
}

init {
	byte k;
	atomic {
		for (k : 0 .. NLAUNCH-1) { run Caller(k) }
	}
}

/* evaluated when nothing can move any more */
active proctype Check() {
	byte k;
	timeout ->
#ifndef ENUM
	for (k : 0 .. NLAUNCH-1) {
		/* Launch ok => Done happened before the return, the marker was there, the daemon lives, the launcher is gone */
		assert(!ok[k] || (done_at_ret[k] && marker_at_ret[k] && d_alive[k] && !l_alive[k]));
		/* Done happened and the daemon lives => Launch returned ok */
		assert(!(done_sent[k] && d_alive[k]) || (ret[k] && ok[k]));
	}
#else
	/* reachability query: is there a complete run in which launch k belongs to class Q_Ck
	 * (when its Done() landed) and ends with outcome Q_Ok? An assertion violation = yes. */
	for (k : 0 .. NLAUNCH-1) {
		printf("CLASS launch=%d done_class=%d ok=%d\n", k, cls[k], ok[k]);
	}
#if NLAUNCH == 1
	assert(!(done_sent[0] && cls[0] == Q_C0 && ok[0] == Q_O0))
#else
	assert(!(done_sent[0] && cls[0] == Q_C0 && ok[0] == Q_O0 && done_sent[1] && cls[1] == Q_C1 && ok[1] == Q_O1))
#endif
#endif
}
