// Plain reproduction (no explorer) of the source-position defect found by the odd-source pass of
// the C01 / C13 checks: when the recorded file name of the call site has fewer than two slashes
// (a //line directive, or a -trimpath build of a file at the root of a one-element module path
// such as "mymod/main.go", or just "main.go") the handlers dropped its first character.
// Copy into the logger package directory and run:  go test -run TestSourceFirstChar ./logger/
package logger

import (
	"bytes"
	"strings"
	"testing"
)

func TestSourceFirstChar(t *testing.T) {
	var buf bytes.Buffer
	l := New(NewJsonHandler(&buf, NewOptions(LevelInfo, false, true)))
//line mymod/main.go:10
	l.Info("hello")
	if !strings.Contains(buf.String(), `"file":"mymod/main.go","line":10`) {
		t.Fatalf("source of a call site in mymod/main.go:10 rendered as %s", buf.String())
	}
}
