// Plain reproduction (no explorer) of the C14 defect found by the lane check:
// TaskLane.lastPanic was written by workers and read by Status() without synchronisation.
// Run from a copy of the tasklane package directory:  go test -race -run TestLastPanicRace
package tasklane

import (
	"context"
	"errors"
	"testing"
)

type panicTask struct{ v any }

func (p panicTask) Start() { panic(p.v) }

func TestLastPanicRace(t *testing.T) {
	ctx, cancel := context.WithCancel(context.Background())
	defer cancel()
	tl := New(ctx, 2, 4)
	for i := 0; i < 200; i++ {
		tl.PushTask(panicTask{"boom"}, 0)
		tl.PushTask(panicTask{errors.New("boom")}, 1)
		_ = tl.Status().LastPanic
	}
}
