#!/bin/bash
# ./run.sh <ID> quick|thorough      run the check of one property against $VERIF_REPO (default /repo)
# ./run.sh replay <file>            replay a recorded violation
cd "$(dirname "$0")"
export GOFLAGS=-mod=mod GOPROXY=off GOSUMDB=off GOTOOLCHAIN=local
ROOT=$(pwd)
REPO=${VERIF_REPO:-/repo}
# evidence/ describes /repo itself: runs against any other tree (seeded defects, benign changes) write theirs elsewhere
[ "$REPO" != /repo ] && export VERIF_EVIDENCE_DIR=${VERIF_EVIDENCE_DIR:-/tmp/verif-evidence-scratch}
VARGS=()
infra() { echo "INFRA-ERROR $*"; exit 2; }

if [ "$1" = replay ]; then
  FILE=$2
  ID=$(python3 -c "import json,sys;print(json.load(open(sys.argv[1]))['property'])" "$FILE") || infra "cannot read $FILE"
  TIER=quick
  REPLAY=(-replay "$FILE")
else
  ID=$1; TIER=${2:-quick}; REPLAY=()
fi

case $ID in
  C06|C07|C08|C14) PKG=lane ;;
  C19) PKG=c19 ;;
  C20) PKG=c20 ;;
  C18) PKG=c18 ;;
  C10) PKG=c10 ;;
  C09) PKG=c09 ;;
  C16) PKG=c16 ;;
  C17) PKG=c17 ;;
  C15) PKG=c15 ;;
  C03) PKG=c03 ;;
  C13) PKG=c13 ;;
  C01) PKG=c01 ;;
  C05) PKG=c05 ;;
  C04) PKG=c04 ;;
  C11) PKG=c11 ;;
  C02) PKG=c02 ;;
  C12) PKG=c12; VARGS=(-const util/netutil:listSize=3) ;;
  *) infra "unknown property $ID" ;;
esac

WORK=$ROOT/.work/run.$ID.$$
mkdir -p "$WORK" "$ROOT/evidence" "$ROOT/replays"
trap 'rm -rf "$WORK"' EXIT

[ -x $ROOT/.work/bin/vinstr ] || (mkdir -p $ROOT/.work/bin && go build -o $ROOT/.work/bin/vinstr ./engine/vinstr) || infra "cannot build vinstr"

MODFLAG=()
if [ "$REPO" != /repo ]; then
  sed "s#=> /repo#=> $REPO#" go.mod > "$WORK/go.mod"; cp go.sum "$WORK/go.sum"
  MODFLAG=(-modfile "$WORK/go.mod")
fi

build() { # build <variant> <vinstr args...>  -> $WORK/check.<variant>
  local v=$1; shift
  $ROOT/.work/bin/vinstr -repo "$REPO" -out "$WORK/instr.$v" -shim "$ROOT/engine/shim" "$@" > "$WORK/vinstr.$v.log" 2>&1 || { cat "$WORK/vinstr.$v.log"; infra "instrumentation failed"; }
  go build "${MODFLAG[@]}" -overlay "$WORK/instr.$v/overlay.json" -o "$WORK/check.$v" ./checks/$PKG > "$WORK/build.$v.log" 2>&1 || { head -50 "$WORK/build.$v.log"; infra "instrumented build failed"; }
}

if [ "$ID" = C11 ]; then
  build small -const util/netutil:listSize=3
  grep -q CONST-NOT-FOUND "$WORK/vinstr.small.log" && infra "constant override not applicable: $(grep CONST-NOT-FOUND $WORK/vinstr.small.log)"
  build real
  "$WORK/check.small" -id C11 -tier "$TIER" -root "$ROOT" -variant small -part "$WORK/part.small" || exit $?
  "$WORK/check.real" -id C11 -tier "$TIER" -root "$ROOT" -variant real -prev "$WORK/part.small"
  exit $?
fi
if [ "$ID" = C20 ]; then
  build main
  # the daemon package of the process harness arms its timers through vtime's scaled real timers (overlay)
  go build "${MODFLAG[@]}" -tags verif -overlay "$WORK/instr.main/overlay.json" -o "$WORK/c20proc" ./checks/c20/proc > "$WORK/build.proc.log" 2>&1 || { head -30 "$WORK/build.proc.log"; infra "cannot build the process harness with -tags verif"; }
  "$WORK/check.main" -id C20 -tier "$TIER" -root "$ROOT" -variant main -proc "$WORK/c20proc" -repo "$REPO" "${REPLAY[@]}"
  exit $?
fi
build main "${VARGS[@]}"
grep -q CONST-NOT-FOUND "$WORK/vinstr.main.log" && infra "constant override not applicable: $(grep CONST-NOT-FOUND $WORK/vinstr.main.log)"
# free-running complement: the real packages, real goroutines, Go's race detector (sampling; never the deciding step)
RACE=()
case $ID in C02|C03|C05|C06|C07|C08|C12|C14|C15)
  if [ ${#REPLAY[@]} -eq 0 ]; then
    mkdir -p "$WORK/race"
    if go build "${MODFLAG[@]}" -race -o "$WORK/racepass" ./checks/racepass > "$WORK/build.race.log" 2>&1; then
      SEC=3; [ "$TIER" = thorough ] && SEC=30
      GORACE="log_path=$WORK/race/race exitcode=0 halt_on_error=0" timeout 120 "$WORK/racepass" -id "$ID" -seconds $SEC > "$WORK/race/result.json" 2> "$WORK/race/stderr.log" || rm -f "$WORK/race/result.json"
      RACE=(-racepass "$WORK/race")
    fi
  fi ;;
esac
"$WORK/check.main" -id "$ID" -tier "$TIER" -root "$ROOT" -variant main "${RACE[@]}" "${REPLAY[@]}"
exit $?
