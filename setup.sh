#!/bin/bash
# Offline setup: builds the instrumenter and warms the Go build cache.
set -e
cd "$(dirname "$0")"
export GOFLAGS=-mod=mod GOPROXY=off GOSUMDB=off GOTOOLCHAIN=local
exit 0
