#!/bin/bash
# Offline setup: builds the instrumenter and warms the Go build cache by building every harness once.
cd "$(dirname "$0")"
export GOFLAGS=-mod=mod GOPROXY=off GOSUMDB=off GOTOOLCHAIN=local
mkdir -p .work/bin evidence replays
go build -o .work/bin/vinstr ./engine/vinstr || { echo "INFRA-ERROR cannot build vinstr"; exit 2; }
W=.work/setup.$$
.work/bin/vinstr -repo "${VERIF_REPO:-/repo}" -out $W/instr -shim engine/shim >/dev/null || { echo "INFRA-ERROR instrumentation failed"; rm -rf $W; exit 2; }
for p in $(ls -d checks/*/ | grep -v racepass); do
  go build -overlay $W/instr/overlay.json -o /dev/null ./$p || echo "warning: $p does not build"
done
go build -race -o /dev/null ./checks/racepass || echo "warning: the -race driver does not build"
rm -rf $W
exit 0
