#!/bin/bash
# tools/benigncheck.sh [name...]   property-preserving changes (benign/<ID>-<i>/patch.diff, written by
# sub-agents that saw only the property text) must NOT be reported: apply each to a scratch copy
# of /repo, run the quick check of its property, expect exit 0.
cd /verif
names=("$@"); [ ${#names[@]} -eq 0 ] && names=($(ls benign))
for n in "${names[@]}"; do
  id=${n%%-*}
  D=$(mktemp -d /tmp/ben.XXXXXX)
  cp -r /repo/. "$D/" && (cd "$D" && git apply /verif/benign/$n/patch.diff) || { echo "$n patch-does-not-apply"; rm -rf "$D"; continue; }
  VERIF_REPO="$D" ./run.sh "$id" quick > /tmp/ben.$n.log 2>&1; rc=$?
  rm -rf "$D"
  echo "$n exit=$rc $(grep -m1 -E 'VIOLATION|INFRA-ERROR' /tmp/ben.$n.log | cut -c1-160)"
done
