#!/bin/bash
# tools/benigncross.sh   every benign patch against every check whose property lives in the package(s) it touches
cd /verif
declare -A PK=( [logger]="C01 C02 C03 C13 C15" [httpd]="C04 C05 C15" [tasklane]="C06 C07 C08 C14" [util/netutil]="C11 C12" [config]="C09 C10" [util/strutil]="C16" [util/fsutil]="C17" [util/osutil]="C18" [util/ioutil]="C19" [daemon]="C20" )
for n in $(ls benign); do
  own=${n%%-*}
  ids=""
  for pk in "${!PK[@]}"; do grep -q "^+++ b/$pk/" benign/$n/patch.diff && ids="$ids ${PK[$pk]}"; done
  D=$(mktemp -d /tmp/ben.XXXXXX)
  cp -r /repo/. "$D/" && (cd "$D" && git apply /verif/benign/$n/patch.diff) || { echo "$n patch-does-not-apply"; rm -rf "$D"; continue; }
  for id in $(echo $ids | tr ' ' '\n' | sort -u); do
    [ "$id" = "$own" ] && continue
    grep -q "^$n vs $id exit=0" /tmp/benigncross.done 2>/dev/null && continue   # resume
    VERIF_REPO="$D" ./run.sh "$id" quick > /tmp/benx.$n.$id.log 2>&1; rc=$?
    echo "$n vs $id exit=$rc $(grep -m1 -A1 -E 'VIOLATION|INFRA-ERROR' /tmp/benx.$n.$id.log | tr '\n' ' ' | cut -c1-260)"
  done
  rm -rf "$D"
done
