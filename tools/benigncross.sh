#!/bin/bash
# tools/benigncross.sh [pattern]   every benign patch (names matching the pattern) against every check whose
# property lives in the package(s) it touches, three patches at a time. Resumes: lines already in
# /tmp/benigncross.done with exit=0 are skipped.
cd /verif
one() {
  n=$1
  declare -A PK=( [logger]="C01 C02 C03 C13 C15" [httpd]="C04 C05 C15" [tasklane]="C06 C07 C08 C14" [util/netutil]="C11 C12" [config]="C09 C10" [util/strutil]="C16" [util/fsutil]="C17" [util/osutil]="C18" [util/ioutil]="C19" [daemon]="C20" )
  own=${n%%-*}
  ids=""
  for pk in "${!PK[@]}"; do grep -q "^+++ b/$pk/" benign/$n/patch.diff && ids="$ids ${PK[$pk]}"; done
  D=$(mktemp -d /tmp/ben.XXXXXX)
  cp -r /repo/. "$D/" && (cd "$D" && git apply /verif/benign/$n/patch.diff) || { echo "$n patch-does-not-apply"; rm -rf "$D"; return; }
  for id in $(echo $ids | tr ' ' '\n' | sort -u); do
    [ "$id" = "$own" ] && continue
    grep -q "^$n vs $id exit=0" /tmp/benigncross.done 2>/dev/null && continue
    VERIF_REPO="$D" VERIF_EVIDENCE_DIR=/tmp/verif-evidence-scratch.$n ./run.sh "$id" quick > /tmp/benx.$n.$id.log 2>&1; rc=$?
    echo "$n vs $id exit=$rc $(grep -m1 -A1 -E 'VIOLATION|INFRA-ERROR' /tmp/benx.$n.$id.log | tr '\n' ' ' | cut -c1-260)"
  done
  rm -rf "$D" /tmp/verif-evidence-scratch.$n
}
export -f one
ls benign | grep -E "${1:-.}" | xargs -P 3 -I{} bash -c 'one {}'
