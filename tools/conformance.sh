#!/bin/bash
# tools/conformance.sh   conformance of the scheduler's model of Go's primitives with the real runtime:
# every outcome a micro-program produces natively must be among the outcomes the explorer enumerates.
cd "$(dirname "$0")/.."
export GOFLAGS=-mod=mod GOPROXY=off GOSUMDB=off GOTOOLCHAIN=local
W=.work/conf.$$; mkdir -p $W
trap 'rm -rf $W' EXIT
go build -o .work/bin/vinstr ./engine/vinstr || exit 2
.work/bin/vinstr -repo /repo -out $W/instr -shim engine/shim -pkgs none -extra "$PWD/engine/conformance/progs=verif/engine/conformance/progs" > $W/vinstr.log 2>&1 || { cat $W/vinstr.log; exit 2; }
go build -tags explore -overlay $W/instr/overlay.json -o $W/explore ./engine/conformance/run || exit 2
go build -o $W/native ./engine/conformance/run || exit 2
$W/explore > $W/explored.json || exit 2
$W/native -runs ${1:-4000} > $W/native.json || exit 2
python3 - $W <<'PY'
import json,sys
w=sys.argv[1]
ex=json.load(open(w+'/explored.json')); na=json.load(open(w+'/native.json'))
bad=0
for name in ex:
    e=set(ex[name]); n=set(na.get(name,{}))
    miss=n-e
    flag='OK' if not miss and not any(k.startswith(('FAILURE','INCOMPLETE')) for k in e) else 'MISMATCH'
    if flag!='OK': bad+=1
    print(f"{flag:8} {name:40} explored={sorted(e)} native={sorted(n)}" + (f"  NOT-EXPLORED={sorted(miss)}" if miss else ""))
sys.exit(1 if bad else 0)
PY
