#!/usr/bin/env python3
"""Regenerate MANIFEST.json from the table below (kept next to the checks so that it is edited with them)."""
import json, os
root = os.path.dirname(os.path.dirname(os.path.abspath(__file__)))
ids = [json.loads(l)['id'] for l in open(os.path.join(root, 'properties.jsonl'))]

S_NOTE = ("Trusted base: the vsched scheduler model of Go's sync/atomic/channel/select/context semantics (engine/shim), the vinstr "
          "source rewriter, and the assumption that code between two visible operations is atomic - itself checked by the "
          "happens-before race detector on every struct field of the package in every explored execution: a race is a violation for the properties that state race freedom (C12; C14 for Status()), for the others the racy location is promoted to a visible operation and the scenarios are explored again, so the oracle decides on the interleavings of the racing statements. Sequentially consistent "
          "atomics; no weak-memory effects. The scheduler model is cross-checked against the real runtime (tools/conformance.sh: 19 micro-programs, native outcomes are a subset of the explored ones) and the sleep-set reduction against the plain search (tools/sleepdiff.sh). Scenarios are small (1-2 lanes, 2-5 tasks); beyond the reported bound the argument is the small-scope hypothesis.")

LOG_NOTE = ("Trusted base: the ordered JSON reader (encoding/json tokens) / the key=value tokenizer, the reference builder of the expected "
            "attribute structure (engine/vlog), slog's own Record/GroupValue semantics. Scope: strings exhaustive to 2 bytes and single scalars; "
            "attribute structure exhaustive within a node budget (4 quick / 5 thorough) over 4 representative leaves, all 36 value kinds at 9 position classes.")

CHECKS = {
 'C06': dict(engine='vsched', cat='model_checking', ref='4 (C06), 2.2',
   technique='stateless model checking of the instrumented real code: controlled scheduler, deviation-bounded (preemption / delay) DFS with happens-before state cache',
   text='Every interleaving (unbounded on 1-lane scenarios, bounded by preemptions/delays on 2-lane ones) of producers, queue goroutines, workers, timers and a canceller over the real tasklane code; in every quiescent state: accepted tasks started exactly once, rejected tasks never (errors matched with errors.Is), no double start after cancel. The lane checks share one harness; each reports only the clauses its own statement owns.',
   note=S_NOTE),
 'C07': dict(engine='vsched', cat='model_checking', ref='4 (C07), 2.2',
   technique='stateless model checking of the instrumented real code: controlled scheduler, cancellation/deadline as an ordinary thread operation landing at every step',
   text='Cancellation and deadline expiry are operations of a harness thread, so they land at every point of push / take / hand-over / task body in the explored interleavings; oracles: late PushTask returns the context error without enqueuing, blocked producers are released, Wait returns once running tasks returned, no lane goroutine stays behind, no task starts after Wait returned (ordered through a monitor object).',
   note=S_NOTE),
 'C08': dict(engine='vsched', cat='model_checking', ref='4 (C08), 2.2',
   technique='stateless model checking of the instrumented real code: controlled scheduler, monitor atomic for the number of running tasks, quiescence oracle for head-of-line blocking',
   text='A monitor atomic counts tasks inside Start() in every explored interleaving (never above laneSize); in every quiescent state a task may only still be waiting if every worker is blocked by a never-returning task, so a pinned lane must be drained by the other worker.',
   note=S_NOTE),
 'C14': dict(engine='vsched', cat='model_checking', ref='4 (C14), 2.2',
   technique='stateless model checking of the instrumented real code plus vector-clock happens-before race detection on every TaskLane field',
   text='Panicking tasks with values of different dynamic types on several workers, Status() polled concurrently: every explored interleaving is checked for field-level data races involving Status(), for pending counts inside [0, L*(Q+1)] and, at rest, for PendingTask == accepted - started and LastPanic being one of the panicked values; after panics on every worker two tasks that return only when both run at once must still complete (every worker keeps serving, whichever goroutine plays it).',
   note=S_NOTE),
 'C12': dict(engine='vsched', cat='model_checking', ref='4 (C12), 2.2',
   technique='stateless model checking of the instrumented real code (list size reduced to 3 so the list->maps migration is reachable) plus vector-clock race detection on every IPv4Filter field',
   text='Writers owning their ranges (crossing the migration, toggling 0.0.0.0/0) and readers; every interleaving at RWMutex and atomic operations; call/return instants are monitor events so every real-time order is explored; oracle is the statement itself (true required if one range present throughout the call, false required if none present at any time), final agreement with the per-goroutine sequential model on boundary probes, no race, no panic. Scenario G: /32, /31, /16 and /2 ranges on both sides of the list->maps switch. Scenarios H: the same range added twice and removed once (alone, next to a second writer, re-added while present before the switch). Scenarios A2 and B4 give every writer call an instant of its own, so that \'present throughout the call\' is also decided for ranges removed later by their owner; B2, B3: 0.0.0.0/0 present while a writer crosses the switch.',
   note=S_NOTE + ' netutil is rebuilt with listSize=3 by constant override; if the constant disappears the check reports INFRA-ERROR rather than passing vacuously.'),
 'C19': dict(engine='vsched', cat='model_checking', ref='4 (C19), 2.2',
   technique='stateless model checking of the instrumented real code: call sequences are free choices enumerated together with all writer/consumer interleavings (unbounded)',
   text='All 1036 call sequences (<=3 calls (thorough 4) x Write/WriteString x full/short/failing underlying writer x StringWriter or not x 4-byte or 70 000-byte payload) crossed with all interleavings of the writer and a consumer draining Status(), plus a wide-but-shallow scenario of 40 writes with a late consumer; invariant at every scheduling step: the writer is never disabled inside Write/WriteString; oracles: Size() equals the sum the wrapped writer reported (however the bytes were handed to it), received values are non-decreasing and each is a total after some completed call of the wrapped writer, after Close the last value is the total and the channel is closed. Payload sizes 4, 70 000 and 700 001 bytes; free choice of who calls Status() first (the writer\'s side up front, or the consumer whenever it starts).',
   note=S_NOTE),
 'C02': dict(engine='vsched', cat='model_checking', ref='4 (C02), 2.2',
   technique='stateless model checking of the instrumented real logger: all interleavings at pool get/put, outMu and inside the destination Write, differential oracle against the same record logged alone',
   text='For each of the three handlers, 2-3 goroutines x 1-3 operations (root log, pre-derived child log, derive-then-log, below threshold, 20 KiB record, formatted log); Write begin/end are monitor events (no overlap may ever be observed), the multiset of chunks must equal byte-for-byte the lines produced by each call alone on a fresh handler, per-goroutine order preserved, nothing written below the threshold, no field-level race. Every operation has its own instant (per-thread clocks), so a line carrying another record\'s time is a difference; two further scenarios derive from one shared non-root parent whose rendered attributes leave spare capacity (free choice of its width). A destination that refuses one record does so in three ways (EAGAIN, io.ErrShortWrite, a short count without error): still exactly one Write for it. Scenario grouped-slow-valuer: two goroutines log through one pre-derived logger inside a group, with group attributes and a LogValuer whose resolution is a monitor event, so each record is rendered while the other is half done.',
   note=S_NOTE),
 'C11': dict(engine='vstate', cat='model_checking', ref='4 (C11), 2.3',
   technique='explicit-state BFS whose transition function is the real Add/Remove call, to a fixpoint with list size 3 and to depth 3-4 around the real switch at 256, against a set-of-prefixes reference model',
   text='Every reachable state of the filter over an alphabet of 7 nesting/colliding ranges plus invalid arguments (list size rebuilt to 3: BFS to a fixpoint), and all sequences of depth 3 (quick) / 4 (thorough) from 16 prefilled configurations at the real list size (index 253..256, holes first/middle/last); in every state Contains is compared with the model on first/last/outside-neighbour probes in 4-byte and 16-byte form; rejected arguments (errors.Is ErrInvalidIPv4CIDR) are applied in every state and must leave every later membership answer unchanged. Right before every update the first and last address of the range being updated are looked up (a remembered lookup must not outlive the update).',
   note='Trusted base: the reflective canonical dump (complete, so states are never merged wrongly), the prefix-set model, the constant override of listSize for the small variant. Alphabet of 7 ranges + 5 invalid shapes; prefix lengths 0,1,8,9,12,32.'),
 'C04': dict(engine='vstate', cat='model_checking', ref='4 (C04), 2.3',
   technique='exhaustive enumeration of route tables (states) built on the real Mux in every registration order x all request paths/methods of a small alphabet dispatched through ServeHTTP (transitions), judged by an independent reference router',
   text='All tables of <=2 (quick) / <=3 (thorough) routes over 37 patterns x 3 methods (single-route tables: 162 patterns x 5 methods), every registration order (tables of three routes: as registered and reversed; each judged against the reference router), registrations that are rejected (recovered by the caller, the Mux used on) included, 3105 request paths x 5 method strings each; exactly one handler exactly once, no panic, the handler the documented precedence selects, its RouteInfo, and every parameter lookup bound to the exact path text. After each table one request per route (and one unmatched) is served with a panicking handler and the table is judged again; patterns include literal segments that merely begin with \'*\' or \':\'.',
   note='Trusted base: the reference router written from the statement (greedy literal > :param > *, empty segments skipped except a final one, root first, exact method > *). Paths without a leading slash: only one-handler-once-no-panic is required (segmentation undefined by the statement). Patterns without a leading slash are not generated.'),
 'C05': dict(engine='vstate+vsched', cat='model_checking', ref='4 (C05), 2.2, 2.3',
   technique='explicit-state BFS over request/registration histories on one real Mux with explicit pool choices, differential oracle against a fresh Mux; plus stateless model checking of 2-3 concurrent requests with race detection',
   text='All histories to depth 4 (quick) / 6 (thorough) over 9 requests x 3 pool behaviours + late registration of a route with more parameters; in relay, route and no-route handlers the observation vector (route info, every parameter name that exists anywhere, RouteParamAny, initial status, request id read twice) must equal the one on a fresh Mux with the same routes; ids unique within the Mux and constant during the request (no format is assumed). Concurrent part: all interleavings (unbounded for 2 clients x 2 requests) at pool get/put and the id counter, field-level race detection. One request\'s handler writes a status and panics through the relay (nobody below ServeHTTP recovers). Two requests have a handler that issues another request through the same Mux while its own is in flight (forwarding with its own writer; an independent sub-request after setting a status): the inner and the outer request are each compared with the same nesting on a fresh Mux, ids of outer and inner differ.',
   note=S_NOTE + ' The state key contains every pooled Store (names, values up to capacity, status, id length); the id counter is excluded (ids are checked along each path).'),
 'C01': dict(engine='vstate-style enumeration (vlogrun)', cat='model_checking', ref='4 (C01), 2.3, 2.4',
   technique='bounded exhaustive enumeration of inputs (all 1-/2-byte strings, all Unicode scalars) and of With/WithGroup chain x call-site attribute trees within a node budget, every record run through the real Logger+JsonHandler and judged by an independent ordered JSON reader and reference builder',
   text='Every 1- and 2-byte string and every Unicode scalar as message, key and value (thorough: all three positions for scalars too); all 36 value kinds at 9 position classes x 5 levels x source on/off x 2 entry points; every (chain, call attributes) combination within the node budget (109 671 records quick). Each record must be one newline-terminated line (however many Write calls carry it: the subject of C02) that parses to time, level, [source = the harness call site], msg and exactly the expected ordered member tree. Pass same-second-different-zones: 24 records one after the other whose instants share a second but carry different time zones; each line must carry its own time.',
   note=LOG_NOTE),
 'C13': dict(engine='vstate-style enumeration (vlogrun)', cat='model_checking', ref='4 (C13), 2.3, 2.4',
   technique='bounded exhaustive enumeration as for C01 plus group names over arbitrary bytes and class-representative strings, judged by an independent key=value tokenizer (bare run or Go-quoted string) and the reference flattening to dotted paths',
   text='Same generators as C01 against the Text handler, plus every 1-/2-byte string as WithGroup name and as group key and every string of <=3 representatives of 15 character classes (letter, space, =, quote, backslash, newline, DEL, NBSP, U+2028, zero-width, U+FFFD, invalid byte, tab, dot, non-ASCII) in message / key / group / value position. The line must tokenize unambiguously and unquote to exactly time, level, [source], msg and each leaf with its dotted path; strings, errors, text-marshalled values, integers and bools are compared exactly, floats / durations / times by what they denote, composite and nil values only as one token. Pass same-second-different-zones as in C01.',
   note=LOG_NOTE),
 'C03': dict(engine='vstate+vsched', cat='model_checking', ref='4 (C03), 2.2, 2.3',
   technique='explicit-state BFS over derivation trees of the real handlers with a differential oracle (isolated replay of each logger\'s own chain; call-site equivalence), plus stateless model checking of two concurrent derivers with race detection',
   text='For each handler: all derivation trees of <=5 (thorough 6) loggers over 6 derivation kinds; after every derivation every existing logger is probed and must write byte-for-byte what a logger built alone from a fresh root by replaying its own chain writes, and structurally what a root logger given the With attributes at the call site writes. The aliasing precondition (parent with spare buffer capacity and >=2 children) is counted where the handler layout allows. Concurrent part: two goroutines deriving from a shared non-root parent and logging through child, parent and grandchild, all interleavings to the bound. Further passes: an empty group given to With must not appear (as at the call site); With(n attributes) for n = 20..1600 with a sibling derived afterwards, everybody compared with the same logger built alone (rendered sizes through every buffer growth step). Use during use: while a group attribute of one logger is rendered (log call or With), a LogValuer member logs through and derives from another logger of the tree (root, sibling, the logger itself, its child); the multiset of lines must equal that of the same operations done one after the other (180 cases).',
   note=S_NOTE),
 'C15': dict(engine='vsched + enumeration', cat='model_checking', ref='4 (C15), 2.2',
   technique='exhaustive enumeration of handler behaviours through the real Mux+Relay judged per log format, plus stateless model checking of 2-3 requests in flight',
   text='Sequential part: 77 behaviours (11 write patterns x {no panic, panic after writing with 6 value kinds} + panic before writing x 6) x matched/no-route x 2 client address forms x 3 log handlers x 2 thresholds = 1992 requests; no panic escapes, the recorder sees 500 iff the handler panicked before writing, exactly one REQ_BEG/REQ_END (Info) carrying method, URI, client IP, the id the handler saw and the status the client received, exactly one Error record with the panic value and the same id. Concurrent part: 2 and 3 requests in flight for each log handler, all interleavings to the bound; records pair up by id. Write patterns include Flush / FlushError and a body streamed with io.Copy; panic values include a typed nil error with value receiver and unhashable values (slice, map, struct holding a slice, func). One write pattern streams the body with io.Copy from a source that delivers three bytes and then panics inside its second Read.',
   note=S_NOTE + ' Records are decoded by the JSON reader / text tokenizer / positionally (nano).'),
 'C16': dict(engine='enumeration', cat='exploration', ref='4 (C16), 2.4',
   technique='exhaustive enumeration of all strings up to length 5 over the 15-symbol alphabet against a POSIX word-splitting model, and up to length 4 (quick) / 5 (thorough) against the real dash and bash',
   text='About 1.75 M (function, string) pairs through the model - all strings of length <= 5 (thorough 6) over the 15-symbol alphabet, tilde prefixes ~w/w\', every single byte - (exactly one word, equal to the input, no expansion / substitution / glob / operator / comment / tilde event, except exactly one tilde expansion for ExceptTilde on ~/ inputs; results kept across calls must not change) and about 450 000 words through dash and bash in batch scripts (one argument equal to the input, or $HOME/rest). Plus long words of one repeated unit (every count up to 96 bytes) followed by each short tail.',
   note='Trusted base: the word-splitting model (engine/voracle/shellmodel.go), itself cross-checked against two real shells on the same words; non-interactive shells (history expansion off), HOME containing a space and a quote.'),
 'C17': dict(engine='enumeration', cat='exploration', ref='4 (C17), 2.4',
   technique='exhaustive enumeration of all URL paths up to length 9 (thorough 11) over 4 symbols, and up to length 7 over a percent-escape alphabet, x 12 bases against a lexical containment oracle',
   text='Every URL path of length <= 9 (thorough 11) over {/ . a \\\\} and of length <= 7 over {/ . % 2 e f} x 12 bases (about 4.8 M pairs quick): the result must be the cleaned base or lexically beneath it, and for paths without dot segments equal the plain join (percent-escapes stay literal). Plus long paths of one repeated unit (every count up to 130) followed by each short climbing tail.',
   note='Trusted base: the segment-wise containment oracle; lexical only (no symlinks on disk).'),
 'C10': dict(engine='enumeration', cat='exploration', ref='4 (C10), 2.4',
   technique='exhaustive enumeration of all argument vectors up to length 4 (quick) / 5 (thorough) over 35 tokens, each in three worlds (only the command line speaks / CFG_CONFIG_B64 / the environment give every field another value), against a reference parser of the documented grammar',
   text='All argument vectors of length <= 4 (quick, about 4.6 M judgements) / <= 5 (thorough) over 35 tokens (incl. values whose text equals the tag default), each judged three times - nothing else speaks, a CFG_CONFIG_B64 document gives every field another value, the environment does (an assignment is observable only against what the field would hold without it) - against a struct with bool, int, string, duration, uint64, a long-named int and a nested int64 flag: error exactly when the grammar says so, never a panic, otherwise identical field values, Args() and ShowUsage().',
   note='Trusted base: the reference parser (checks/c10/main.go, written from the documented grammar). -config <file> is not in the alphabet (C09 covers it).'),
 'C09': dict(engine='enumeration', cat='exploration', ref='4 (C09), 2.4',
   technique='exhaustive enumeration of generated configurations (reflect.StructOf) over field kind x nesting x tag syntax x all 16 source subsets x value sets x JSON carrier x cli spelling x second-field subsets',
   text='About 123 000 (quick) / 246 000 (thorough) Parse calls over 9 kinds x 4 nesting positions (incl. acronym names DB.URL -> CFG_DB_URL) x 2 tag syntaxes x 16 source subsets x 6 value sets (ordinary, extreme, empty text, cli/env repeating the tag default\'s text, cli/env spelling the zero value, JSON holding the zero value under a non-zero default) x 3 JSON carrier modes (file, CFG_CONFIG_B64, both: the file wins) x 3 cli spellings x the second field\'s subsets, each with its own environment and config file; the field must equal the strconv-parsed value of the highest-priority source mentioning it, the second field its own, and trailing args are preserved. Plus built-in flag tokens (-help, --help=true, -help=false) in front of the arguments, and structs of 3..300 int fields with every field given by its own combination of sources.',
   note='Trusted base: strconv / time.ParseDuration / base64 as value parsers; literal environment names in the harness.'),
 'C18': dict(engine='fault enumeration (vos seam)', cat='fault_enumeration', ref='4 (C18), 2.1',
   technique='exhaustive enumeration of fault positions: every numbered file-system call of each scenario fails in turn (plus calls revealed by a fault, and every pair in thorough), on a real temporary directory and a second real file system',
   text='111 scenarios (size x destination x alias x parent x source presence, CopyFile and MoveFile, real EXDEV between / and /dev/shm) x every single fault position incl. partial copies (about 600 runs quick; every pair of positions in thorough); byte-level snapshots before/after decide; the source may be removed only once the destination is complete (checked at the remove call). Aliases include the source being a symbolic link to the destination; contents include zero tails and all-zero files at 64 KiB, 128 KiB and 1 MiB. In addition eight scenarios run one CopyFile / cross-device MoveFile (1 B .. 1 MiB+5) under the controlled scheduler (util/osutil/file.go is instrumented for channels, select and go): one execution each for a sequential copy, every interleaving and every ready select case for an implementation that copies with goroutines of its own.',
   note='Trusted base: the vos seam (engine/shim/vos) mounted over os/io calls of util/osutil by the instrumenter; real file systems.'),
 'C20': dict(engine='spin + real-process replay', cat='model_checking', ref='4 (C20), 2.5',
   technique='Promela model of caller/launcher/daemon checked exhaustively by spin (no partial-order reduction), parameterised by whether the SIGINT handler of the launcher is in place before cmd.Start (measured on the real processes, cross-checked against the source); every reachable schedule class is obtained by reachability queries with replayed witness trails and then replayed on real processes through the verif pause points',
   text='Model: all interleavings of 1 and 2 concurrent Launch calls (52 / 6509 states on the current tree), invariants: Launch ok => Done() happened, marker present, daemon alive, launcher gone; Done() happened and daemon alive => Launch ok. Classes = when Done() landed relative to the two pause points of the launcher; each class and the free race, for one and two concurrent launches (10 plans, 15 launches), is forced on real processes built with -tags verif: Launch must return the daemon pid only after Done(), the marker must exist, the daemon must stay alive and be orphaned, the launcher must be gone, the real processes decide; an outcome the model does not have for a class is recorded as a conformance warning in the evidence. One more class: the daemon is held before Done() while every timer armed by the daemon package fires at once (scaled real timers mounted by overlay): Launch must still not return. Further plans on real processes: two overlapping Launch calls in one process, a failing Launch followed by a healthy one, 16 simultaneous Launch calls for 16 daemon names released by a barrier in one process (each must return the pid of the process running its own handler).',
   note='Trusted base: spin 6.5, the Promela model (models/c20_daemon.pml), the two pause points (hook commit, build tag verif), the OS. Inside a class the kernel schedules freely; no timeout is used as an oracle (a step exceeding 30 s is INFRA-ERROR).'),
}

NA_REASON = 'check not built yet (work in progress; see DESIGN.md section 4)'

m = {
 'version': 1,
 'setup_cmd': './setup.sh',
 'hooks': {
   'guard': 'verif',
   'enable': 'go build -tags verif (only daemon/ has tag-guarded hooks; all other instrumentation is generated at check time by engine/vinstr and mounted with go build -overlay, never touching /repo; the shim packages the instrumented code imports are ordinary packages of /verif, verif/engine/shim/...)',
   'baseline_off_cmd': 'cd /repo && go test -vet=off -count=1 -timeout 25m ./...   # no -tags: the guard verif is off, verifPause is an empty stub',
   'source_commits': ['6559d687863e9452a7303ad3d2f79e04feccfb72'],
   'add_only': True,
 },
 'engines': [
   {'name': 'vsched', 'path': 'engine/shim/vsched', 'serves_properties': ['C02','C03','C05','C06','C07','C08','C12','C14','C15','C19'],
    'kind_free_text': 'hand-written stateless model checker for Go: cooperative scheduler over real goroutines, deviation-bounded DFS by replay, happens-before trace cache, vector-clock race detector'},
   {'name': 'vinstr', 'path': 'engine/vinstr', 'serves_properties': ids,
    'kind_free_text': 'type-directed source instrumenter (go/types) producing a go build -overlay: sync/atomic/time/context/os -> shims, channels/select/go -> scheduler calls, field access monitors'},
 ],
 'checks': [],
 'notes': 'Every check: ./run.sh <ID> <tier>; instruments /repo (or $VERIF_REPO) afresh, builds the harness with -overlay, runs it, writes evidence/<ID>.json. Exit 0 held / 1 VIOLATION / 2 INFRA-ERROR.',
 'not_applicable': [],
}
for i in ids:
    if i in CHECKS:
        c = CHECKS[i]
        m['checks'].append({
          'property_id': i,
          'quick_cmd': './run.sh %s quick' % i,
          'thorough_cmd': './run.sh %s thorough' % i,
          'evidence_file': '/verif/evidence/%s.json' % i,
          'replay_cmd_template': './run.sh replay {path}',
          'engine': c['engine'],
          'level_claimed': {'category': c['cat'], 'text': c['text'], 'design_ref': c['ref']},
          'level_note': c['note'],
          'technique': c['technique'],
        })
    else:
        m['not_applicable'].append({'property_id': i, 'reason': NA_REASON})
json.dump(m, open(os.path.join(root, 'MANIFEST.json'), 'w'), indent=1)
print('claimed', len(m['checks']), 'n/a', len(m['not_applicable']))
