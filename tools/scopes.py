#!/usr/bin/env python3
"""Rewrite the block between <!-- scopes:begin --> and <!-- scopes:end --> in DESIGN.md from evidence/*.json."""
import json, re, os
root = os.path.dirname(os.path.dirname(os.path.abspath(__file__)))
rows = ["| id | tier | states | transitions | evaluations / executions | distinct non-trivial | exhaustive | wall |", "|---|---|---|---|---|---|---|---|"]
for i in range(1, 21):
    pid = 'C%02d' % i
    e = json.load(open(os.path.join(root, 'evidence', pid + '.json'))); c = e['coverage']
    f = lambda v: '-' if v is None else f'{v:,}'.replace(',', ' ')
    rows.append(f"| {pid} | {e.get('tier')} | {f(c.get('states'))} | {f(c.get('transitions'))} | {f(c.get('evaluations'))} | {f(c.get('distinct_nontrivial'))} | {c.get('exhaustive')} | {round(e.get('wall_s', 0))} s |")
p = os.path.join(root, 'DESIGN.md'); s = open(p).read()
block = "<!-- scopes:begin -->\n" + "\n".join(rows) + "\n<!-- scopes:end -->"
if '<!-- scopes:begin -->' in s:
    s = re.sub(r'<!-- scopes:begin -->.*?<!-- scopes:end -->', lambda m: block, s, flags=re.S)
    open(p, 'w').write(s)
    print("updated")
else:
    print(block)
