#!/usr/bin/env python3
"""tools/seedcheck.py <ID> <i> [tier]
Verify a seeded defect delivered by a sub-agent in /tmp/seed-<ID>/ (patch<i>.diff, demo<i>/, notes<i>.json):
  1. the patch applies to a scratch copy of /repo and builds,
  2. the repository's own test suite still passes with it,
  3. the demonstration fails with the patch and passes without it,
  4. our check for <ID> reports a violation on the patched tree (exit 1),
then store it as /verif/seeded/<ID>-<i>/ with meta.json.  Scratch copies are removed."""
import json, os, re, shutil, subprocess, sys, tempfile, glob

ID, I = sys.argv[1], sys.argv[2]
tier = sys.argv[3] if len(sys.argv) > 3 else 'quick'
src = os.environ.get('SEED_SRC', f'/tmp/seed-{ID}')
env = dict(os.environ, GOFLAGS='-mod=mod', GOPROXY='off', GOSUMDB='off', GOTOOLCHAIN='local')
notes = json.load(open(f'{src}/notes{I}.json'))
patch = f'{src}/patch{I}.diff'
demo = f'{src}/demo{I}'

def sh(cmd, cwd, timeout=900):
    p = subprocess.run(cmd, shell=True, cwd=cwd, env=env, capture_output=True, text=True, errors='replace', timeout=timeout)
    return p.returncode, (p.stdout + p.stderr)

def scratch(patched):
    d = tempfile.mkdtemp(prefix='sv.', dir='/tmp')
    subprocess.run(['cp', '-r', '/repo/.', d], check=True)
    if patched:
        rc, out = sh(f'git apply {patch}', d)
        if rc != 0:
            print('PATCH DOES NOT APPLY', out); shutil.rmtree(d); sys.exit(3)
    return d

def place_demo(d):
    raw = notes.get('demo_cmd', '').replace('&&', ' ').replace(';', ' ')
    m = re.search(r'(go test [^()\n]*?\./([\w/]+?)/?)(\s|$)', raw)
    cmd = m.group(1) if m else raw
    pkg = m.group(2) if m else None
    files = glob.glob(demo + '/*')
    for f in files:
        if os.path.isdir(f):
            shutil.copytree(f, os.path.join(d, os.path.basename(f)), dirs_exist_ok=True)
        elif pkg and f.endswith('.go'):
            shutil.copy(f, os.path.join(d, pkg))
        else:
            shutil.copy(f, d)
    return cmd

res = {'property': ID, 'index': int(I), 'summary': notes.get('summary'), 'needs': notes.get('needs'), 'demo_cmd': notes.get('demo_cmd')}
dp = scratch(True)
rc, out = sh('go build ./... ', dp)
res['builds'] = rc == 0
rc, out = sh('go test -vet=off -count=1 ./... 2>&1 | grep -v "^ok" | grep -v "no test files"', dp)
fails = [l for l in out.splitlines() if l.startswith('FAIL') or l.startswith('--- FAIL')]
fails = [l for l in fails if 'TestWaitForInterrupt' not in l and l.strip() != 'FAIL']
res['existing_tests_pass'] = len([l for l in fails if l.startswith('--- FAIL')]) == 0 and not any(l.startswith('FAIL') and 'osutil' not in l for l in fails)
res['existing_tests_output'] = out[-600:]
cmd = place_demo(dp)
rc1, out1 = sh(cmd if cmd else 'false', dp)
res['demo_fails_with_patch'] = rc1 != 0
dc = scratch(False)
place_demo(dc)
rc2, out2 = sh(cmd if cmd else 'false', dc)
res['demo_passes_without_patch'] = rc2 == 0
shutil.rmtree(dc)
# our check against a clean patched copy (without the demo files)
shutil.rmtree(dp)
dp = scratch(True)
p = subprocess.run(['/verif/run.sh', ID, tier], env=dict(env, VERIF_REPO=dp), capture_output=True, text=True, errors='replace', timeout=3600)
res['check_exit'] = p.returncode
viol = [l for l in p.stdout.splitlines() if l.startswith('VIOLATION')]
res['check_violations'] = len(viol)
res['check_first_report'] = '\n'.join(p.stdout.splitlines()[:1] if not viol else p.stdout[p.stdout.index('VIOLATION'):].splitlines()[:4])[:900]
res['caught'] = p.returncode == 1 and len(viol) > 0
res['tier'] = tier
shutil.rmtree(dp)
out_dir = '/verif/seeded/' + os.environ.get('SEED_NAME', f'{ID}-{I}')
os.makedirs(out_dir, exist_ok=True)
shutil.copy(patch, out_dir + '/patch.diff')
if os.path.isdir(out_dir + '/demo'):
    shutil.rmtree(out_dir + '/demo')
shutil.copytree(demo, out_dir + '/demo')
res['what_we_ran'] = ['git apply patch.diff on a scratch copy of /repo', 'go build ./...', 'go test -vet=off -count=1 ./...', 'demo with and without the patch: ' + str(notes.get('demo_cmd')), f'VERIF_REPO=<scratch> ./run.sh {ID} {tier}']
json.dump(res, open(out_dir + '/meta.json', 'w'), indent=1)
print(json.dumps({k: res[k] for k in ['property', 'index', 'builds', 'existing_tests_pass', 'demo_fails_with_patch', 'demo_passes_without_patch', 'check_exit', 'caught']}))
print(res['check_first_report'])
if not res['demo_fails_with_patch']:
    print('--- demo output with patch:', out1[-500:])
if not res['demo_passes_without_patch']:
    print('--- demo output without patch:', out2[-500:])
