#!/bin/bash
# tools/selftest.sh [tier]   run every kept property-breaking change against its check and print the catch matrix.
# Seeded defects (seeded/<ID>-<i>/patch.diff, written by independent sub-agents) and our own mutants
# (mutants/<ID>/*.diff) are applied to a scratch copy of /repo (never to /repo itself).
cd "$(dirname "$0")/.."
TIER=${1:-quick}
miss=0
for p in seeded/*/patch.diff mutants/*/*.diff; do
  [ -f "$p" ] || continue
  case $p in
    seeded/*) id=$(basename "$(dirname "$p")"); id=${id%%-*} ;;   # C01-1, C01-r2-1 -> C01
    mutants/*) id=$(basename "$(dirname "$p")") ;;
  esac
  out=$(tools/trymut.sh "$p" "$id" "$TIER" 2>&1); rc=$?
  if [ $rc -eq 1 ] && echo "$out" | grep -q "^VIOLATION property=$id"; then
    echo "caught   $id  $p"
  else
    echo "MISSED   $id  $p  (exit $rc) $(echo "$out" | grep -m1 INFRA-ERROR | cut -c1-300)"; miss=$((miss+1))
  fi
done
echo "missed: $miss"
exit $((miss > 0))
