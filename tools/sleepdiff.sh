#!/bin/bash
# tools/sleepdiff.sh <ID>...   differential self-test of the sleep-set reduction: every unbounded
# scenario must reach exactly the same distinct states and the same end states with and without it.
cd "$(dirname "$0")/.."
for id in "$@"; do
  VERIF_SLEEP=0 ./run.sh $id quick > /dev/null 2>&1; cp evidence/$id.json /tmp/sd.$id.off.json
  ./run.sh $id quick > /dev/null 2>&1; cp evidence/$id.json /tmp/sd.$id.on.json
  python3 - $id <<'PY'
import json,sys
i=sys.argv[1]
a=json.load(open('/tmp/sd.%s.off.json'%i)); b=json.load(open('/tmp/sd.%s.on.json'%i))
sa={s['scenario']:s for s in a['coverage']['scenarios']}; sb={s['scenario']:s for s in b['coverage']['scenarios']}
for n in sorted(sa):
    x,y=sa[n],sb[n]
    if x['bound_completed']!='unbounded' or y['bound_completed']!='unbounded': continue
    ok = x['distinct_states']==y['distinct_states'] and sorted(x['end_states'])==sorted(y['end_states'])
    print(i, n, 'states', x['distinct_states'], y['distinct_states'], 'end-states', len(x['end_states']), len(y['end_states']), 'executions', x['executions'], '->', y['executions'], 'OK' if ok else 'MISMATCH')
PY
done
