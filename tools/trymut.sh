#!/bin/bash
# tools/trymut.sh <patch.diff> <ID> [tier]   apply a patch to a scratch copy of /repo and run one check against it
P=$(readlink -f "$1"); ID=$2; TIER=${3:-quick}
D=$(mktemp -d /tmp/mut.XXXXXX)
cp -r /repo/. "$D/" && (cd "$D" && git apply "$P") || { echo "patch does not apply"; rm -rf "$D"; exit 3; }
VERIF_REPO="$D" /verif/run.sh "$ID" "$TIER"; rc=$?
rm -rf "$D"
echo "exit=$rc"
exit $rc
