#!/usr/bin/env python3
"""Validate MANIFEST.json and every evidence file against the given schemas."""
import json, sys, glob, os
import jsonschema
root = os.path.dirname(os.path.dirname(os.path.abspath(__file__)))
ms = json.load(open('/root/.vp/MANIFEST.schema.json'))
es = json.load(open('/root/.vp/EVIDENCE.schema.json'))
m = json.load(open(os.path.join(root, 'MANIFEST.json')))
jsonschema.validate(m, ms)
ids = [json.loads(l)['id'] for l in open(os.path.join(root, 'properties.jsonl'))]
claimed = [c['property_id'] for c in m['checks']]
na = [c['property_id'] for c in m.get('not_applicable', [])]
assert sorted(claimed + na) == sorted(ids), (sorted(claimed + na), ids)
bad = 0
for c in m['checks']:
    p = c['evidence_file']
    if not os.path.exists(p):
        print('MISSING', p); bad += 1; continue
    e = json.load(open(p))
    try:
        jsonschema.validate(e, es)
        assert e['property_id'] == c['property_id']
        assert e['level'] == c['level_claimed']['category'], (e['level'], c['level_claimed']['category'])
        print('ok', p, e['tier'], 'violations=%s' % e.get('violations'), 'exhaustive=%s' % e['coverage'].get('exhaustive'))
    except Exception as ex:
        print('INVALID', p, str(ex)[:300]); bad += 1
print('manifest ok; claimed', len(claimed), 'not_applicable', len(na))
sys.exit(1 if bad else 0)
